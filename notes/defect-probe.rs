use iroh_docs::{store::{Store, Query}, Author, NamespaceSecret, SignedEntry, Record, ContentStatus, AuthorHeads, AuthorId};
use iroh_blobs::Hash;

fn keys(store: &mut Store, ns: iroh_docs::NamespaceId) -> Vec<(Vec<u8>, u64, bool)> {
    store.get_many(ns, Query::all().include_empty()).unwrap().map(|e| { let e = e.unwrap(); (e.key().to_vec(), e.timestamp(), e.content_len()==0) }).collect()
}

#[tokio::main(flavor = "current_thread")]
async fn main() -> anyhow::Result<()> {
    let ns = NamespaceSecret::from_bytes(&[7u8; 32]);
    let a = Author::from_bytes(&[1u8; 32]);
    let h = Hash::new(b"x");
    let mk = |key: &[u8], ts: u64, empty: bool| {
        let rec = if empty { Record::empty(ts) } else { Record::new(h, 1, ts) };
        SignedEntry::from_parts(&ns, &a, key, rec)
    };
    let peer = [9u8; 32];
    // D1: older child after newer deletion marker
    {
        let mut store = Store::memory();
        let mut r = store.new_replica(ns.clone())?;
        println!("D1 marker a@10: {:?}", r.insert_remote_entry(mk(b"a", 10, true), peer, ContentStatus::Missing).await);
        println!("D1 ab@5 after: {:?}", r.insert_remote_entry(mk(b"ab", 5, false), peer, ContentStatus::Missing).await);
        println!("D1 a@5 (same key, older, nonempty): {:?}", r.insert_remote_entry(mk(b"a", 5, false), peer, ContentStatus::Missing).await);
        drop(r);
        println!("D1 state {:?}", keys(&mut store, ns.id()));
    }
    // D2: empty key parent
    {
        let mut store = Store::memory();
        let mut r = store.new_replica(ns.clone())?;
        println!("D2 ''@10: {:?}", r.insert_remote_entry(mk(b"", 10, false), peer, ContentStatus::Missing).await);
        println!("D2 a@5 after: {:?}", r.insert_remote_entry(mk(b"a", 5, false), peer, ContentStatus::Missing).await);
        drop(r);
        println!("D2 state {:?}", keys(&mut store, ns.id()));
    }
    // D3: 0xFF suffix prefix neighbour
    {
        let mut store = Store::memory();
        let mut r = store.new_replica(ns.clone())?;
        println!("D3 [2]@5: {:?}", r.insert_remote_entry(mk(&[2], 5, false), peer, ContentStatus::Missing).await);
        println!("D3 [1,255]@10: {:?}", r.insert_remote_entry(mk(&[1,255], 10, false), peer, ContentStatus::Missing).await);
        drop(r);
        println!("D3 state {:?}", keys(&mut store, ns.id()));
        let q: Vec<_> = store.get_many(ns.id(), Query::author(a.id()).key_prefix([1u8,255])).unwrap().map(|e| e.unwrap().key().to_vec()).collect();
        println!("D3 query author prefix [1,255] -> {:?}", q);
        let mut r = store.open_replica(&ns.id())?;
        r.insert_remote_entry(mk(&[2], 20, false), peer, ContentStatus::Missing).await.ok();
        drop(r);
        let q: Vec<_> = store.get_many(ns.id(), Query::key_prefix([1u8,255]).sort_by(iroh_docs::store::SortBy::KeyAuthor, iroh_docs::store::SortDirection::Asc)).unwrap().map(|e| e.unwrap().key().to_vec()).collect();
        println!("D3 query bykey prefix [1,255] -> {:?}", q);
    }
    // D4: head overwritten by older arrival; D5 heads after remove
    {
        let mut store = Store::memory();
        let mut r = store.new_replica(ns.clone())?;
        r.insert_remote_entry(mk(b"k1", 10, false), peer, ContentStatus::Missing).await?;
        r.insert_remote_entry(mk(b"k2", 5, false), peer, ContentStatus::Missing).await?;
        drop(r);
        let heads: Vec<_> = store.get_latest_for_each_author(ns.id())?.map(|x| x.unwrap()).map(|(_, ts, k)| (ts, k)).collect();
        println!("D4 heads {:?}", heads);
        store.close_replica(ns.id());
        store.remove_replica(&ns.id())?;
        let heads: Vec<_> = store.get_latest_for_each_author(ns.id())?.map(|x| x.unwrap()).map(|(_, ts, k)| (ts, k)).collect();
        println!("D5 heads after remove {:?}", heads);
    }
    // D6 heads encode collision
    {
        let mut hd = AuthorHeads::default();
        hd.insert(AuthorId::from(&[1u8;32]), 7);
        hd.insert(AuthorId::from(&[2u8;32]), 7);
        let dec = AuthorHeads::decode(&hd.encode(None)?)?;
        println!("D6 encoded {} of {}", dec.len(), hd.len());
    }
    Ok(())
}
