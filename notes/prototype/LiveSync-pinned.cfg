SPECIFICATION Spec
CONSTANTS MaxDials = 3
 FixAbortLeak = FALSE
 KeepResyncOnAccept = FALSE
 Syncing = {1,2}
INVARIANT NoTwoSessions
INVARIANT SlotFreed
CHECK_DEADLOCK FALSE
