SPECIFICATION Spec
CONSTANTS
 Universe <- U1
 MaxInit = 2
 Configs <- Cfg21
 MaxRounds = 12
INVARIANTS Terminates Converges Mirror SecondIsQuiet Normal NoDebugAssert
CHECK_DEADLOCK FALSE
