SPECIFICATION Spec
CONSTANTS
 Universe <- U3
 MaxInit = 3
 Configs <- CfgN
 MaxRounds = 14
INVARIANTS Terminates Converges Mirror SecondIsQuiet Normal NoDebugAssert
CHECK_DEADLOCK FALSE
