SPECIFICATION Spec
CONSTANTS
 Universe <- U4
 MaxInit = 8
 Configs <- CfgW
 MaxRounds = 20
INVARIANTS Terminates Converges Mirror SecondIsQuiet Normal NoDebugAssert
CHECK_DEADLOCK FALSE
