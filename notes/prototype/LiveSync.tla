---------------------------- MODULE LiveSync ----------------------------
(* Prototype: per-(document,peer) sync-slot coordination between two nodes.
   Grain: one action per handler of src/engine/live.rs / state.rs.          *)
EXTENDS Naturals, FiniteSets, Sequences, TLC

CONSTANTS MaxDials,        \* bound on number of dials overall
          FixAbortLeak,    \* TRUE: on RemoteAbort(AlreadySyncing) free a slot still in Running(Connect)
          KeepResyncOnAccept, \* TRUE: accept over Running(Connect) keeps resync flag
          Syncing          \* set of nodes for which the doc is in the sync set

Node == {1, 2}
Other(n) == 3 - n

VARIABLES st,      \* st[n] \in {"Idle","Connect","Accept"}
          resync,  \* resync[n]
          dials,   \* function id -> dial record
          nd,      \* number of dials so far
          owed,    \* history: owed[n] = a SyncReport dial was refused since slot became busy
          bad      \* history: set of violated action-property labels

vars == <<st, resync, dials, nd, owed, bad>>

DialIds == 1..MaxDials

Init == /\ st = [n \in Node |-> "Idle"]
        /\ resync = [n \in Node |-> FALSE]
        /\ dials = <<>>
        /\ nd = 0
        /\ owed = [n \in Node |-> FALSE]
        /\ bad = {}

Ids == 1..nd

\* ---- state.rs -------------------------------------------------------------
\* start_connect: returns <<ok, st', resync'>>
StartConnect(n, reason) ==
  IF n \notin Syncing THEN <<FALSE, st[n], resync[n]>>
  ELSE IF st[n] # "Idle"
       THEN <<FALSE, st[n], IF reason = "SyncReport" THEN TRUE ELSE resync[n]>>
       ELSE <<TRUE, "Connect", FALSE>>

\* accept_request at node m for a request from Other(m)
AcceptDecision(m) ==
  IF m \notin Syncing THEN "NotFound"
  ELSE IF st[m] = "Idle" THEN "Allow"
  ELSE IF st[m] = "Accept" THEN "AlreadySyncing"
  ELSE IF m > Other(m) THEN "Allow" ELSE "AlreadySyncing"

\* ---- dialing (sync_with_peer) ---------------------------------------------
DoDial(n, reason) ==
  LET r == StartConnect(n, reason) IN
  IF r[1] /\ nd < MaxDials
  THEN /\ nd' = nd + 1
       /\ dials' = Append(dials, [from |-> n, reason |-> reason,
                                  cph |-> "Req", cres |-> "none",
                                  aph |-> "None", ares |-> "none",
                                  race |-> \E j \in Ids : dials[j].from = Other(n) /\ dials[j].cph = "Req"])
       /\ st' = [st EXCEPT ![n] = r[2]]
       /\ resync' = [resync EXCEPT ![n] = r[3]]
  ELSE /\ ~r[1]   \* if the bound is hit we simply do not take the step
       /\ UNCHANGED <<nd, dials>>
       /\ st' = [st EXCEPT ![n] = r[2]]
       /\ resync' = [resync EXCEPT ![n] = r[3]]

EnvDial(n, reason) ==
  /\ nd < MaxDials
  /\ DoDial(n, reason)
  /\ owed' = [owed EXCEPT ![n] = IF reason = "SyncReport" /\ st[n] # "Idle" /\ n \in Syncing THEN TRUE ELSE
                                  IF st[n] = "Idle" THEN FALSE ELSE @]
  /\ UNCHANGED bad

\* ---- network / tasks ------------------------------------------------------
LoseRequest(d) ==
  /\ dials[d].cph = "Req"
  /\ dials' = [dials EXCEPT ![d].cph = "Done", ![d].cres = "connfail"]
  /\ UNCHANGED <<st, resync, nd, owed, bad>>

DeliverRequest(d) ==
  /\ dials[d].cph = "Req"
  /\ LET m == Other(dials[d].from)
         dec == AcceptDecision(m) IN
     IF dec = "Allow"
     THEN /\ dials' = [dials EXCEPT ![d].cph = "Sess", ![d].aph = "Sess"]
          /\ st' = [st EXCEPT ![m] = "Accept"]
          /\ resync' = [resync EXCEPT ![m] = IF KeepResyncOnAccept /\ st[m] = "Connect" THEN @ ELSE FALSE]
          /\ UNCHANGED <<nd, owed, bad>>
     ELSE /\ dials' = [dials EXCEPT ![d].cph = "Wait", ![d].cres = dec,
                                    ![d].aph = "Done", ![d].ares = dec]
          /\ UNCHANGED <<st, resync, nd, owed, bad>>

\* the abort reply reaches the dialer, or the connection dies first
DeliverAbort(d) ==
  /\ dials[d].cph = "Wait"
  /\ \/ dials' = [dials EXCEPT ![d].cph = "Done"]
     \/ dials' = [dials EXCEPT ![d].cph = "Done", ![d].cres = "err"]
  /\ UNCHANGED <<st, resync, nd, owed, bad>>

EndDialer(d, res) ==
  /\ dials[d].cph = "Sess"
  /\ dials' = [dials EXCEPT ![d].cph = "Done", ![d].cres = res]
  /\ UNCHANGED <<st, resync, nd, owed, bad>>

EndAcceptor(d, res) ==
  /\ dials[d].aph = "Sess"
  /\ dials' = [dials EXCEPT ![d].aph = "Done", ![d].ares = res]
  /\ UNCHANGED <<st, resync, nd, owed, bad>>

\* ---- completion handlers ----------------------------------------------------
\* finish(): returns <<hadStart, resyncFlag>>; state := Idle
Finish(n, origin, dd) ==
  LET was == st[n]
      rs  == resync[n] IN
  IF n \notin Syncing THEN
       /\ UNCHANGED <<st, resync, nd, owed, bad>> /\ dials' = dd
  ELSE IF was # "Idle" /\ rs
       THEN \* resync: sync_with_peer(Resync) right away; state is Idle now
            /\ IF nd < MaxDials
               THEN /\ nd' = nd + 1
                    /\ dials' = Append(dd, [from |-> n, reason |-> "Resync",
                                  cph |-> "Req", cres |-> "none",
                                  aph |-> "None", ares |-> "none", race |-> FALSE])
                    /\ st' = [st EXCEPT ![n] = "Connect"]
               ELSE /\ UNCHANGED nd /\ dials' = dd /\ st' = [st EXCEPT ![n] = "Idle"]
            /\ resync' = [resync EXCEPT ![n] = FALSE]
            /\ owed' = [owed EXCEPT ![n] = FALSE]
            /\ UNCHANGED bad
       ELSE /\ st' = [st EXCEPT ![n] = "Idle"]
            /\ dials' = dd
            /\ UNCHANGED <<resync, nd>>
            /\ owed' = [owed EXCEPT ![n] = FALSE]
            /\ bad' = IF owed[n] /\ was # "Idle" THEN bad \cup {"ResyncLost"} ELSE bad

HandleConnectDone(d) ==
  /\ dials[d].cph = "Done"
  /\ LET n == dials[d].from
         dd == [dials EXCEPT ![d].cph = "Handled"] IN
     IF dials[d].cres = "AlreadySyncing"
     THEN IF FixAbortLeak /\ st[n] = "Connect"
          THEN Finish(n, "Connect", dd)
          ELSE /\ dials' = dd
               /\ UNCHANGED <<st, resync, nd, owed, bad>>
     ELSE Finish(n, "Connect", dd)

HandleAcceptDone(d) ==
  /\ dials[d].aph = "Done"
  /\ LET m == Other(dials[d].from)
         dd == [dials EXCEPT ![d].aph = "Handled"] IN
     IF dials[d].ares = "AlreadySyncing"
     THEN /\ dials' = dd /\ UNCHANGED <<st, resync, nd, owed, bad>>
     ELSE Finish(m, "Accept", dd)

Next ==
  \/ \E n \in Node, r \in {"NewNeighbor", "SyncReport"} : EnvDial(n, r)
  \/ \E d \in Ids : \/ LoseRequest(d) \/ DeliverRequest(d) \/ DeliverAbort(d)
                    \/ \E res \in {"ok", "err"} : EndDialer(d, res) \/ EndAcceptor(d, res)
                    \/ HandleConnectDone(d) \/ HandleAcceptDone(d)

Spec == Init /\ [][Next]_vars

\* ---- properties -------------------------------------------------------------
InProgress(d) == dials[d].cph = "Sess" /\ dials[d].aph = "Sess"
NoTwoSessions == Cardinality({d \in Ids : InProgress(d)}) <= 1

Quiescent == \A d \in Ids : /\ dials[d].cph = "Handled"
                            /\ dials[d].aph \in {"None", "Handled"}
SlotFreed == Quiescent => \A n \in Node : n \in Syncing => st[n] = "Idle"

NoResyncLost == "ResyncLost" \notin bad

\* both requests of a simultaneous dial delivered => exactly one allowed
SimulExactlyOne ==
  \A d1, d2 \in Ids :
     (/\ d1 < d2 /\ dials[d2].race /\ dials[d1].from # dials[d2].from
      /\ dials[d1].cph \notin {"Req"} /\ dials[d2].cph \notin {"Req"}
      /\ dials[d1].cres # "connfail" /\ dials[d2].cres # "connfail"
      /\ d2 = d1 + 1)
     => ~(dials[d1].aph # "None" /\ dials[d1].ares \notin {"AlreadySyncing","NotFound"} /\
          dials[d2].aph # "None" /\ dials[d2].ares \notin {"AlreadySyncing","NotFound"} /\
          InProgress(d1) /\ InProgress(d2))
=============================================================================
