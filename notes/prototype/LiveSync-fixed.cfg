SPECIFICATION Spec
CONSTANTS MaxDials = 3
 FixAbortLeak = TRUE
 KeepResyncOnAccept = FALSE
 Syncing = {1,2}
INVARIANT NoTwoSessions
INVARIANT SlotFreed
INVARIANT NoResyncLost
CHECK_DEADLOCK FALSE
