SPECIFICATION Spec
CONSTANTS
 Universe <- U1
 MaxInit = 2
 Configs <- CfgAll
 MaxRounds = 12
INVARIANTS Terminates Converges Mirror SecondIsQuiet Normal NoDebugAssert
CHECK_DEADLOCK FALSE
