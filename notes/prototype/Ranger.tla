------------------------------ MODULE Ranger ------------------------------
(* Prototype transcription of src/ranger.rs process_message + Store::put over an
   ordered-map store, and a two-party session.  Entries: [a, k, ts, h].       *)
EXTENDS Naturals, Sequences, FiniteSets, TLC, SequencesExt, Functions

CONSTANTS Universe,    \* set of entries to draw initial stores from
          MaxInit,     \* max entries offered to each side initially
          Configs,     \* set of <<split_factor, max_set_size>>
          MaxRounds

EmptyH == 2            \* rank of the empty hash among hashes {1,2,3}

\* ---------- bytes / ids / values ----------
KeyPrefix(p, k) == Len(p) <= Len(k) /\ \A i \in 1..Len(p) : p[i] = k[i]
LexLess(a, b) ==
  \E i \in 1..(Len(a) + 1) :
     /\ \A j \in 1..(i - 1) : j <= Len(b) /\ a[j] = b[j]
     /\ \/ (i = Len(a) + 1 /\ Len(b) >= i)
        \/ (i <= Len(a) /\ i <= Len(b) /\ a[i] < b[i])
Id(e) == <<e.a, e.k>>
DefaultId == <<0, <<>>>>
IdLess(i, j) == i[1] < j[1] \/ (i[1] = j[1] /\ LexLess(i[2], j[2]))
IdLeq(i, j) == i = j \/ IdLess(i, j)
ValLess(e, f) == e.ts < f.ts \/ (e.ts = f.ts /\ e.h < f.h)
ValLeq(e, f) == ~ValLess(f, e)

\* ---------- reference semantics of a replica ----------
Dominated(e, S) == \E f \in S : f # e /\ f.a = e.a /\ KeyPrefix(f.k, e.k) /\ ValLeq(e, f)
Kept(S) == {e \in S : ~Dominated(e, S)}

\* Store::put
PutOk(S, e) == ~\E f \in S : f.a = e.a /\ KeyPrefix(f.k, e.k) /\ ValLeq(e, f)
PutStore(S, e) ==
  IF PutOk(S, e)
  THEN (S \ {f \in S : f.a = e.a /\ KeyPrefix(e.k, f.k) /\ ValLeq(f, e)}) \cup {e}
  ELSE S

Sorted(S) == SetToSortSeq(S, LAMBDA u, v : IdLess(Id(u), Id(v)))

\* get_range, in the iteration order of the redb implementation
RangeSeq(S, x, y) ==
  IF x = y THEN Sorted(S)
  ELSE IF IdLess(x, y) THEN Sorted({e \in S : IdLeq(x, Id(e)) /\ IdLess(Id(e), y)})
  ELSE Sorted({e \in S : IdLess(Id(e), y)}) \o Sorted({e \in S : IdLeq(x, Id(e))})

RangeSet(S, x, y) == {RangeSeq(S, x, y)[i] : i \in 1..Len(RangeSeq(S, x, y))}
Fp(S, x, y) == RangeSet(S, x, y)        \* abstract fingerprint
EmptyFp == {}

First(S) == IF S = {} THEN DefaultId ELSE Id(Sorted(S)[1])
InitMsg(S) == LET x == First(S) IN << [t |-> "fp", x |-> x, y |-> x, fp |-> Fp(S, x, x)] >>

\* ---------- process_message ----------
RECURSIVE PutAll(_, _, _)
PutAll(S, vals, i) == IF i > Len(vals) THEN S ELSE PutAll(PutStore(S, vals[i]), vals, i + 1)

Items(msg) == SelectSeq(msg, LAMBDA p : p.t = "item")
Fps(msg)   == SelectSeq(msg, LAMBDA p : p.t = "fp")

\* one item part: returns [S, out]
DoItem(acc, p) ==
  LET S    == acc.S
      ours == RangeSeq(S, p.x, p.y)
      diff == SelectSeq(ours, LAMBDA o :
                 ~\E i \in 1..Len(p.vals) : Id(p.vals[i]) = Id(o) /\ ValLeq(o, p.vals[i]))
      S2   == PutAll(S, p.vals, 1)
  IN [S |-> S2,
      out |-> IF ~p.hl /\ diff # <<>>
              THEN Append(acc.out, [t |-> "item", x |-> p.x, y |-> p.y, vals |-> diff, hl |-> TRUE])
              ELSE acc.out,
      bad |-> acc.bad]

\* split of a range into sub ranges (Case 3)
SplitRanges(S, x, y, k) ==
  LET seq  == RangeSeq(S, x, y)
      n    == Len(seq)
      lead == {i \in 1..n : \A j \in 1..i : IdLess(Id(seq[j]), x)}
      si   == Cardinality(lead)                       \* start_index
      Piv(i) == LET ii  == i % k
                    off == ((n * (ii + 1)) \div k)
                    o2  == (si + off) % n
                IN Id(seq[o2 + 1])
  IN IF x = y
     THEN LET all == [i \in 1..k |-> <<Piv(i - 1), Piv(i)>>]
          IN SelectSeq(all, LAMBDA r : r[1] # r[2])
     ELSE LET mid == [i \in 1..(k - 2) |-> <<Piv(i - 1), Piv(i)>>]
          IN << <<x, Piv(0)>> >> \o SelectSeq(mid, LAMBDA r : r[1] # r[2]) \o << <<Piv(k - 2), y>> >>

DoFp(acc, p, cfg) ==
  LET S == acc.S
      local == Fp(S, p.x, p.y)
      seq == RangeSeq(S, p.x, p.y)
      n == Len(seq)
  IN IF local = p.fp THEN acc
     ELSE IF n <= 1 \/ p.fp = EmptyFp
     THEN [acc EXCEPT !.out = Append(@, [t |-> "item", x |-> p.x, y |-> p.y, vals |-> seq, hl |-> FALSE])]
     ELSE LET rs == SplitRanges(S, p.x, p.y, cfg[1])
              parts == [i \in 1..Len(rs) |->
                          LET c == RangeSeq(S, rs[i][1], rs[i][2]) IN
                          IF Len(c) > cfg[2]
                          THEN [t |-> "fp", x |-> rs[i][1], y |-> rs[i][2], fp |-> Fp(S, rs[i][1], rs[i][2])]
                          ELSE [t |-> "item", x |-> rs[i][1], y |-> rs[i][2], vals |-> c, hl |-> FALSE]]
              nonEmpty == Cardinality({i \in 1..Len(rs) : RangeSeq(S, rs[i][1], rs[i][2]) # <<>>})
          IN [S |-> S, out |-> acc.out \o parts, bad |-> acc.bad \/ nonEmpty <= 1]

RECURSIVE FoldItems(_, _, _)
FoldItems(acc, ps, i) == IF i > Len(ps) THEN acc ELSE FoldItems(DoItem(acc, ps[i]), ps, i + 1)
RECURSIVE FoldFps(_, _, _, _)
FoldFps(acc, ps, i, cfg) == IF i > Len(ps) THEN acc ELSE FoldFps(DoFp(acc, ps[i], cfg), ps, i + 1, cfg)

Process(S, msg, cfg) ==
  LET a1 == FoldItems([S |-> S, out |-> <<>>, bad |-> FALSE], Items(msg), 1)
  IN FoldFps(a1, Fps(msg), 1, cfg)

ValueCount(msg) == LET it == Items(msg) IN
   IF it = <<>> THEN 0 ELSE FoldFunction(LAMBDA p, s : s + Len(p.vals), 0, it)

\* ---------- session ----------
VARIABLES A, B, A0, B0, cfg, wire, turn, rounds, sentA, recvA, sentB, recvB, dbg, phase
vars == <<A, B, A0, B0, cfg, wire, turn, rounds, sentA, recvA, sentB, recvB, dbg, phase>>

Subsets(U, n) == {X \in SUBSET U : Cardinality(X) <= n}

Init ==
  /\ \E X \in Subsets(Universe, MaxInit), Y \in Subsets(Universe, MaxInit) :
        /\ A = Kept(X) /\ B = Kept(Y)
  /\ A0 = A /\ B0 = B
  /\ cfg \in Configs
  /\ wire = InitMsg(A)
  /\ turn = "B" /\ rounds = 0
  /\ sentA = 0 /\ recvA = 0 /\ sentB = 0 /\ recvB = 0
  /\ dbg = FALSE /\ phase = 1

Step ==
  /\ turn \in {"A", "B"} /\ rounds < MaxRounds
  /\ IF turn = "B"
     THEN LET r == Process(B, wire, cfg) IN
          /\ B' = r.S /\ A' = A
          /\ recvB' = recvB + ValueCount(wire)
          /\ sentB' = sentB + ValueCount(r.out)
          /\ UNCHANGED <<sentA, recvA>>
          /\ wire' = r.out
          /\ dbg' = (dbg \/ r.bad)
          /\ turn' = IF r.out = <<>> THEN "done" ELSE "A"
     ELSE LET r == Process(A, wire, cfg) IN
          /\ A' = r.S /\ B' = B
          /\ recvA' = recvA + ValueCount(wire)
          /\ sentA' = sentA + ValueCount(r.out)
          /\ UNCHANGED <<sentB, recvB>>
          /\ wire' = r.out
          /\ dbg' = (dbg \/ r.bad)
          /\ turn' = IF r.out = <<>> THEN "done" ELSE "B"
  /\ rounds' = rounds + 1
  /\ UNCHANGED <<A0, B0, cfg, phase>>

\* second session right after the first
Again ==
  /\ turn = "done" /\ phase = 1
  /\ phase' = 2 /\ wire' = InitMsg(A) /\ turn' = "B" /\ rounds' = 0
  /\ sentA' = 0 /\ recvA' = 0 /\ sentB' = 0 /\ recvB' = 0
  /\ UNCHANGED <<A, B, A0, B0, cfg, dbg>>

Next == Step \/ Again
Spec == Init /\ [][Next]_vars

Terminates == rounds < MaxRounds
Converges == turn = "done" => (A = B /\ A = Kept(A0 \cup B0))
Mirror == turn = "done" => (sentA = recvB /\ sentB = recvA)
SecondIsQuiet == (phase = 2 /\ turn = "done") => (rounds = 1 /\ sentA = 0 /\ sentB = 0)
NoDebugAssert == ~dbg
Normal == A = Kept(A) /\ B = Kept(B)
=============================================================================
