"""Per-property pipeline definitions (see bin/check)."""
from vlib import DESIGN_CONSTS

D = dict(DESIGN_CONSTS)


def consts(**kw):
    c = dict()
    c.update(kw)
    return c


ENTRY = {k: D[k] for k in ("ParentsSeeMarkers", "EmptyKeyIsParent", "PrefixBoundCarry")}
RANGER = dict(D)

PROPS = {}

# ------------------------------------------------------------------------------------------ C02
PROPS["C02"] = {
    "level": "model_checking",
    "rule": "model: every reachable (offered, store) over the universe, i.e. every order and repetition of "
            "<= MaxOffered entries; implementation: seeded histories (<= 24 ops, 12 keys incl. empty / 0xFF-edged / "
            "prefix-related, 2 authors, markers, duplicates) on memory and file stores; a case is one history",
    "assumptions": ["ed25519 / BLAKE3 are trusted (entries are validly signed by construction)",
                    "projection of ids to byte-order ranks preserves every comparison the code makes",
                    "TLC and the CommunityModules are correct"],
    "models": [
        {"name": "bytes-lemmas", "module": "MCBytes", "init": "Init", "next": "Next", "workers": 2},
        {"name": "replica-quick", "module": "MCReplica", "workers": 8,
         "consts": dict(ENTRY, Universe="<- U_quick", MaxOffered=3, HeadMonotone="TRUE", RemoveClearsHeads="TRUE"),
         "invariants": ["StoreIsKeptOfOffered", "Normalized", "HeadsExact"], "properties": ["StepOk"],
         "tiers": ("quick",)},
        {"name": "replica-thorough", "module": "MCReplica", "workers": 14, "timeout": 3000,
         "consts": dict(ENTRY, Universe="<- U_thorough", MaxOffered=3, HeadMonotone="TRUE", RemoveClearsHeads="TRUE"),
         "invariants": ["StoreIsKeptOfOffered", "Normalized", "HeadsExact"], "properties": ["StepOk"],
         "tiers": ("thorough",)},
    ],
    # unbounded (TLAPS): domination is a strict partial order; one insertion into a normalized store is the join with the
    # entry; Kept(Kept(A) u {e}) = Kept(A u {e}) for finite A - i.e. the inductive step of store = Kept(offered) for keys,
    # timestamps, hashes and sets of any size; the prefix relation on byte strings is a partial order
    "proofs": [{"module": "EntriesProof", "states": "DomIrreflexive, DomTransitive, PutIsKept, FiniteCovered, Absorb, StepKeepsInvariant"},
               {"module": "BytesProof", "states": "KPRefl, KPTrans, KPAntisym"}],
    "sensitivity": [
        {"base": "replica-quick", "flip": {"ParentsSeeMarkers": "FALSE"}, "tiers": ("quick",)},
        {"base": "replica-quick", "flip": {"EmptyKeyIsParent": "FALSE"}, "tiers": ("quick",)},
        {"base": "replica-quick", "flip": {"PrefixBoundCarry": "FALSE"}, "tiers": ("quick",)},
    ],
    "drives": [
        {"name": "replica-c02", "cmd": "replica", "args": {"profile": "c02", "n": {"quick": 300, "thorough": 6000}},
         "trace_module": "ReplicaTrace", "trace_consts": dict(RANGER, Prop='"C02"')},
    ],
}

REPLICA_Q = {"name": "replica-quick", "module": "MCReplica", "workers": 8,
             "consts": dict(ENTRY, Universe="<- U_quick", MaxOffered=3, HeadMonotone="TRUE", RemoveClearsHeads="TRUE"),
             "invariants": ["StoreIsKeptOfOffered", "Normalized", "HeadsExact"], "properties": ["StepOk"]}

# ------------------------------------------------------------------------------------------ C13
PROPS["C13"] = {
    "level": "model_checking",
    "rule": "model: heads table after every reachable history of the replica model incl. removal/re-creation; all head "
            "sets over 4 authors x timestamps {1,2,127,128} x limits around every item boundary; implementation: heads, "
            "has_news_for_us after every step of seeded histories, encode/decode under ~9 limits per head set; heads after every "
            "call of seeded multi-document histories incl. removal / re-creation, reopen and the migration-001 rebuild of a dropped heads table",
    "assumptions": ["size limits >= 1 (an empty postcard vector already needs one byte)",
                    "timestamps below 2^31 in traces (TLC integers); varint length formula transcribed from postcard"],
    "models": [
        REPLICA_Q,
        {"name": "heads-encode", "module": "MCHeads", "init": "Init", "next": "Next", "workers": 4,
         "consts": {"EncodeKeyedByAuthor": "TRUE"}, "invariants": ["MechSatisfiesSpec", "NewsLaw"]},
    ],
    "sensitivity": [
        {"base": "replica-quick", "flip": {"HeadMonotone": "FALSE"}},
        {"base": "replica-quick", "flip": {"RemoveClearsHeads": "FALSE"}},
        {"base": "heads-encode", "flip": {"EncodeKeyedByAuthor": "FALSE"}},
    ],
    "drives": [
        {"name": "replica-c13", "cmd": "replica", "args": {"profile": "all", "n": {"quick": 250, "thorough": 5000}},
         "trace_module": "ReplicaTrace", "trace_consts": dict(RANGER, Prop='"C13"')},
        {"name": "heads", "cmd": "heads", "args": {"n": {"quick": 300, "thorough": 6000}},
         "trace_module": "HeadsTrace", "trace_consts": {"EncodeKeyedByAuthor": "TRUE"}},
        # heads across document removal / re-creation, reopen and the rebuild of the heads table by migration 001
        {"name": "docs", "cmd": "docs", "args": {"n": {"quick": 60, "thorough": 2000}},
         "trace_module": "DocsTrace", "trace_consts": dict(ENTRY, Prop='"C13"', PeerCap=5), "tv_timeout": 3000},
        # heads across a crash: C06's crash images (age-based commit forced before every table access of every call), judged
        # here only on "the heads found are the greatest timestamps of the records found"
        {"name": "storetx-heads", "cmd": "storetx", "args": {"n": {"quick": 8, "thorough": 200}},
         "trace_module": "StoreTxTrace", "trace_consts": dict(ENTRY, Prop='"C13"'), "tv_timeout": 3000, "timeout": 7200},
        # news detection as the live engine asks for it: has_news_for_us through the real store actor with reports of 1-3 authors
        # (one unknown to the store) between local / remote writes, drops and re-creations
        {"name": "actor-news", "cmd": "actor", "args": {"n": {"quick": 80, "thorough": 3000}},
         "trace_module": "ActorTrace",
         "trace_consts": dict(ENTRY, OpenCounts="TRUE", SyncSticky="TRUE", GateSync="TRUE", GateOpen="TRUE", DropClearsSettings="TRUE", Prop='"C13"'),
         "tv_timeout": 3000},
    ],
}

# ------------------------------------------------------------------------------------------ C12
PROPS["C12"] = {
    "level": "model_checking",
    "rule": "model: all interleavings (<= 5 steps) of offers (valid, superseded, invalid; local and remote) with 2 "
            "subscribers joining, unsubscribing or dropping their receiver; implementation: seeded histories with "
            "subscribe / unsubscribe / drop-receiver / policy changes and both ingress paths, events drained after every step",
    "assumptions": ["subscriber channels are unbounded in the harness (a full bounded channel blocks by design)",
                    "on reconciliation messages the expected event sequence is judged only when the store itself followed "
                    "the specification on that step (modular: admission defects are C02's to report)"],
    "models": [
        {"name": "events", "module": "MCEvents", "workers": 6,
         "consts": dict(ENTRY, Universe="<- UEv", Slots="{1, 2}", MaxSteps=5, AnnounceOnlyApplied="TRUE",
                        UnsubExact="TRUE", ThePolicy="<- Pol"),
         "invariants": ["ExactlyOnePerApplied"]},
    ],
    "sensitivity": [
        {"base": "events", "flip": {"AnnounceOnlyApplied": "FALSE"}},
        {"base": "events", "flip": {"UnsubExact": "FALSE"}},
    ],
    "drives": [
        {"name": "replica-c12", "cmd": "replica", "args": {"profile": "all", "n": {"quick": 250, "thorough": 5000}},
         "trace_module": "ReplicaTrace", "trace_consts": dict(RANGER, Prop='"C12"')},
        # subscriptions made, dropped and used through the real store actor (open-with-subscribe, subscribe, unsubscribe)
        {"name": "actor-events", "cmd": "actor", "args": {"n": {"quick": 120, "thorough": 3000}},
         "trace_module": "ActorTrace",
         "trace_consts": dict(ENTRY, OpenCounts="TRUE", SyncSticky="TRUE", GateSync="TRUE", GateOpen="TRUE", DropClearsSettings="TRUE", Prop='"C12"'),
         "tv_timeout": 3000},
    ],
}

# ------------------------------------------------------------------------------------------ C03
PROPS["C03"] = {
    "level": "model_checking",
    "rule": "model: every store of <= 2 entries x every message of <= 2 (quick) / 3 (thorough) values with all "
            "combinations of namespace / signature validity, malformed emptiness and timestamps at and beyond the future "
            "bound, split over 1-2 item parts; implementation: entries forged at byte level through serde (11 tamper "
            "classes + malformed emptiness + future bound), offered through both ingress paths mixed with valid entries",
    "assumptions": ["ed25519 unforgeability is trusted: ground truth (nsok, sigok) of a forged entry is known by construction",
                    "the future bound is exercised with a pinned clock (hook H2)"],
    "models": [
        {"name": "accept-quick", "module": "MCAccept", "init": "Init", "next": "Next", "workers": 6,
         "consts": dict(RANGER, Contents="<- CQuick", MaxVals=2),
         "invariants": ["OnlyAcceptableStored", "AsIfAbsent", "RejectedChangesNothing"], "tiers": ("quick",)},
        {"name": "accept-thorough", "module": "MCAccept", "init": "Init", "next": "Next", "workers": 12, "timeout": 3000,
         "consts": dict(RANGER, Contents="<- CThorough", MaxVals=3),
         "invariants": ["OnlyAcceptableStored", "AsIfAbsent", "RejectedChangesNothing"], "tiers": ("thorough",)},
    ],
    "sensitivity": [
        {"base": "accept-quick", "flip": {"ValidateEmptyInSync": "FALSE"}, "tiers": ("quick",)},
    ],
    "drives": [
        {"name": "replica-c03", "cmd": "replica", "args": {"profile": "c03", "twin": 1, "n": {"quick": 300, "thorough": 6000}},
         "trace_module": "ReplicaTrace", "trace_consts": dict(RANGER, Prop='"C03"')},
    ],
}

# ------------------------------------------------------------------------------------------ C01 / C08
SESSION_CONSTS = dict(RANGER, MaxInit=2, MaxRounds=12, Shards=1, Shard=0)
SESSION_INV = ["Terminates", "Converges", "Mirror", "SecondIsQuiet", "Normal", "NoDebugAssert", "CarriedWereHeld", "NoForeign"]
SESSION_SMALL = {"name": "session-small", "module": "MCSession", "workers": 6,
                 "consts": dict(SESSION_CONSTS, Universe="<- USmall", Configs="<- Cfg21"), "invariants": SESSION_INV}
SESSION_MODELS = [
    {"name": "session-quick", "module": "MCSession", "workers": 10, "timeout": 1200,
     "consts": dict(SESSION_CONSTS, Universe="<- U1", Configs="<- Cfg21"), "invariants": SESSION_INV, "tiers": ("quick",)},
    {"name": "session-configs", "module": "MCSession", "workers": 14, "timeout": 3000,
     "consts": dict(SESSION_CONSTS, Universe="<- U1", Configs="<- CfgAll"), "invariants": SESSION_INV, "tiers": ("thorough",)},
    {"name": "session-two-authors", "module": "MCSession", "workers": 14, "timeout": 3000,
     # one of 6 shards of the ~280k initial pairs (the enumeration of initial states is single-threaded)
     "consts": dict(SESSION_CONSTS, Universe="<- U2", Configs="<- Cfg21", Shards=6, Shard=1), "invariants": SESSION_INV,
     "tiers": ("thorough",)},
    {"name": "session-wide", "module": "MCSession", "workers": 14, "timeout": 3000,
     "consts": dict(SESSION_CONSTS, Universe="<- U4", Configs="<- CfgW", MaxInit=8, MaxRounds=40), "invariants": SESSION_INV,
     "tiers": ("thorough",)},
]
PROPS["C01"] = {
    "level": "model_checking",
    "rule": "model: every pair of normalized stores of <= 2 entries per side over a 24-entry universe (empty key, 0xFF-edged, "
            "prefix pairs, markers, value ties), complete first and second session; thorough adds 5 configs, two authors, and "
            "stores up to 8 entries x 6 configs; implementation: seeded store pairs (<= 14 entries/side, 3 authors, 10 "
            "split/max-set configs, memory and file backends), the full transcript validated message by message",
    "assumptions": ["fingerprint collision-freedom (BLAKE3/XOR) is assumed; observed fingerprints must be an injective "
                    "function of the range contents across each run",
                    "initiator is side A; both orders of every random pair are equally likely by symmetry of generation"],
    "models": [SESSION_SMALL] + SESSION_MODELS,
    "sensitivity": [
        {"base": "session-small", "flip": {"ParentsSeeMarkers": "FALSE"}},
        {"base": "session-small", "flip": {"PrefixBoundCarry": "FALSE"}},
    ],
    "drives": [
        {"name": "session", "cmd": "session", "args": {"n": {"quick": 400, "thorough": 12000}},
         "trace_module": "SessionTrace", "trace_consts": dict(RANGER, Prop='"C01"', RoundBound=40), "tv_timeout": 3000},
    ],
}
PROPS["C08"] = {
    "level": "model_checking",
    "rule": "Ranger.tla is the reference ordered map; model: the C01 session model exercises it; implementation: every "
            "process_message step of real sessions (memory and file) must equal Ranger.Process on the logged pre-state, plus "
            "a primitive sweep of hand-built one/two-part messages (impossible / empty fingerprints, item requests) over "
            "arbitrary ranges x<y, x>y, x=y incl. foreign-namespace endpoints and 6 configs",
    "assumptions": ["fingerprint collision-freedom assumed; injectivity of observed fingerprints checked per run"],
    "models": [SESSION_MODELS[0], dict(SESSION_MODELS[1])],
    "drives": [
        {"name": "session", "cmd": "session", "args": {"n": {"quick": 300, "thorough": 8000}},
         "trace_module": "SessionTrace", "trace_consts": dict(RANGER, Prop='"C08"', RoundBound=40), "tv_timeout": 3000},
        {"name": "sweep", "cmd": "replica", "args": {"profile": "c08", "n": {"quick": 300, "thorough": 5000}},
         "trace_module": "ReplicaTrace", "trace_consts": dict(RANGER, Prop='"C08"'), "tv_timeout": 3000},
    ],
}

# ------------------------------------------------------------------------------------------ C05
PROPS["C05"] = {
    "level": "model_checking",
    "rule": "model: every reachable (records, by-key index incl. stale ids) over a 24-entry universe, both physical paths "
            "vs Query.tla for all key filters / directions / include-empty; implementation: states built by real histories "
            "(2-3 authors, 0xFF-edged and prefix-related keys, markers, pruned entries, timestamp ties), full product of 8 "
            "query dimensions on the first states and a seeded sample on the rest, plus every point lookup; a case is one query",
    "assumptions": ["where the property is silent the spec accepts either choice: timestamp ties in a latest-per-key group; "
                    "author filter and include-empty applied before or after grouping"],
    "models": [
        {"name": "query-paths", "module": "MCQueryIndex", "workers": 8,
         "consts": dict(ENTRY, Universe="<- UQ", MaxOffered=3, IndexMaintained="TRUE"),
         "invariants": ["PathsAgree", "NoLiveRecordWithoutIndexRow"]},
    ],
    "sensitivity": [
        {"base": "query-paths", "flip": {"PrefixBoundCarry": "FALSE"}},
        {"base": "query-paths", "flip": {"IndexMaintained": "FALSE"}},
    ],
    "drives": [
        {"name": "query", "cmd": "query", "args": {"n": {"quick": 30, "thorough": 600}, "sample": {"quick": 1500, "thorough": 2500}},
         "trace_module": "QueryTrace", "trace_consts": dict(ENTRY), "tv_timeout": 3000},
    ],
}

# ------------------------------------------------------------------------------------------ Docs family
DOCS_CONSTS = dict(ENTRY, DocIds="<- Ids3", EntryU="<- EU", PeerIds="{1, 2, 3}", Pols="<- P2", MaxSteps=6, PeerCap=2,
                   RemoveClearsHeads="TRUE", RemoveClearsSettings="TRUE", RemoveUpperBound="TRUE",
                   ImportNeverDowngrades="TRUE", PeerRefreshMoves="TRUE", RebuildTakesMax="TRUE")
DOCS_INV = ["NoOrphans", "HeadsRowsExact", "PeerListOk"]
DOCS_PROPS = ["CapMonotone", "OthersUntouched", "RemovedIsGone", "PeerMRU"]
DOCS_Q = {"name": "docs-quick", "module": "MCDocs", "workers": 10, "consts": DOCS_CONSTS,
          "invariants": DOCS_INV, "properties": DOCS_PROPS, "tiers": ("quick", "thorough")}
DOCS_T = {"name": "docs-deep", "module": "MCDocs", "workers": 14, "timeout": 3000,
          "consts": dict(DOCS_CONSTS, MaxSteps=8), "invariants": DOCS_INV, "properties": DOCS_PROPS, "tiers": ("thorough",)}
DOCS_PEERS = {"name": "docs-peers", "module": "MCDocs", "workers": 10, "timeout": 1800,
              "consts": dict(DOCS_CONSTS, DocIds="<- Ids2", EntryU="<- NoEntries", Pols="<- NoPols",
                             PeerIds="<- P7", PeerCap=5, MaxSteps={"q": 7}["q"]),
              "invariants": DOCS_INV, "properties": ["PeerMRU", "OthersUntouched"]}
DOCS_REBUILD = {"name": "docs-rebuild", "module": "MCDocs", "workers": 10,
                "consts": dict(DOCS_CONSTS, EntryU="<- EU18", PeerIds="{1}", Pols="<- NoPols", MaxSteps=7,
                               DocIds="<- Ids2"),
                "invariants": DOCS_INV, "properties": ["OthersUntouched"]}
DOCS_ASSUME = ["documents with exact byte-neighbour ids exist only as read-only documents (no secret for a chosen id), so "
               "record-level isolation is exercised between real-key documents adjacent in byte order and settings-level "
               "isolation between exact byte neighbours (..FE, ..FF, carry successor, FF..FF)"]


def docs_drive(prop, nq=80, nt=2500):
    # entries planted into the synthetic neighbour documents only where the property quantifies over them (C16)
    return {"name": "docs", "cmd": "docs", "args": dict({"n": {"quick": nq, "thorough": nt}}, **({"plant": 1} if prop == "C16" else {})),
            "trace_module": "DocsTrace", "trace_consts": dict(ENTRY, Prop='"%s"' % prop, PeerCap=5), "tv_timeout": 3000}


PROPS["C07"] = {
    "level": "model_checking",
    "rule": "model: all histories (<= 6 / 8 steps) of imports (read/write), open, close, local and remote writes, removal and "
            "reopen over 3 byte-neighbour documents; implementation: seeded histories over 3 real + 4 synthetic documents",
    "assumptions": DOCS_ASSUME,
    "models": [DOCS_Q, DOCS_T],
    "sensitivity": [{"base": "docs-quick", "flip": {"ImportNeverDowngrades": "FALSE"}}],
    "drives": [docs_drive("C07"),
               # the actor caches the capability of an open document: write attempts through the real actor thread
               {"name": "actor-caps", "cmd": "actor", "args": {"n": {"quick": 120, "thorough": 3000}},
                "trace_module": "ActorTrace",
                "trace_consts": dict(ENTRY, OpenCounts="TRUE", SyncSticky="TRUE", GateSync="TRUE", GateOpen="TRUE", DropClearsSettings="TRUE", Prop='"C07"'),
                "tv_timeout": 3000}],
}
PROPS["C15"] = {
    "level": "model_checking",
    "rule": "model: policies per document across removal/reopen; implementation: set/get on existing, missing and removed "
            "documents incl. reopen; DownloadPolicy::matches on random policies/keys; Display/FromStr of filters with "
            "non-UTF-8, empty and ':'-containing bytes; the should_download flag of every remote-insert event of seeded replica "
            "histories with policy changes on the open replica (single inserts and reconciliation messages)",
    "assumptions": DOCS_ASSUME,
    "models": [DOCS_Q],
    "sensitivity": [{"base": "docs-quick", "flip": {"RemoveClearsSettings": "FALSE"}}],
    "drives": [docs_drive("C15"),
               {"name": "replica-c15", "cmd": "replica", "args": {"profile": "all", "n": {"quick": 200, "thorough": 5000}},
                "trace_module": "ReplicaTrace", "trace_consts": dict(RANGER, Prop='"C15"')},
               # the policy as the rest of the system sets and reads it: set / get through the real store actor (no open document asked
               # for), documents dropped and re-created in between, and the download flag of the events of remote inserts served after a change
               {"name": "actor-policy", "cmd": "actor", "args": {"n": {"quick": 80, "thorough": 3000}},
                "trace_module": "ActorTrace",
                "trace_consts": dict(ENTRY, OpenCounts="TRUE", SyncSticky="TRUE", GateSync="TRUE", GateOpen="TRUE", DropClearsSettings="TRUE", Prop='"C15"'),
                "tv_timeout": 3000}],
}
PROPS["C16"] = {
    "level": "model_checking",
    "rule": "model: removal refused while open, removed document unobservable, every other document untouched, over 3 ids "
            "<<1,255>>, <<2,0>>, <<255,255>> with the namespace range mechanism; implementation: all observers of all 7 "
            "documents + the store-wide content-hash list compared after every step; on file stores the four synthetic "
            "neighbour documents (ids ..FE, ..FF, carry successor, all-0xFF) also hold entries, planted into the database file",
    "assumptions": DOCS_ASSUME,
    "models": [DOCS_Q, DOCS_T],
    "sensitivity": [{"base": "docs-quick", "flip": {"RemoveClearsHeads": "FALSE"}},
                    {"base": "docs-quick", "flip": {"RemoveClearsSettings": "FALSE"}},
                    {"base": "docs-quick", "flip": {"RemoveUpperBound": "FALSE"}}],
    "drives": [docs_drive("C16"),
               # the GC-protection handshake of a real Engine: protected set = hashes held; no complete set => Abort
               # a removal is all-or-nothing for a process that dies inside it: the age-based commit is forced before every
               # table access of every successful remove_replica and the database file is copied right after the call; the
               # image must show the store wholly before or wholly after the removal (C06's machinery aimed at C16's clause)
               {"name": "storetx-remove", "cmd": "storetx", "args": {"n": {"quick": 40, "thorough": 1200}, "focus": 1},
                "trace_module": "StoreTxTrace", "trace_consts": dict(ENTRY, Prop='"C16"'), "tv_timeout": 3000, "timeout": 7200},
               {"name": "protect", "cmd": "protect", "args": {"n": {"quick": 40, "thorough": 1500}},
                "trace_module": "ProtectTrace", "trace_consts": {}, "tv_timeout": 1800},
               # the hash list and the policy of a dropped document as served by the real store actor between writes, drops and re-creations
               {"name": "actor-hashes", "cmd": "actor", "args": {"n": {"quick": 80, "thorough": 3000}},
                "trace_module": "ActorTrace",
                "trace_consts": dict(ENTRY, OpenCounts="TRUE", SyncSticky="TRUE", GateSync="TRUE", GateOpen="TRUE", DropClearsSettings="TRUE", Prop='"C16"'),
                "tv_timeout": 3000}],
}
PROPS["C17"] = {
    "level": "model_checking",
    "rule": "model: all registration sequences (<= 7) over 7 peers x 2 documents with cap 5; implementation: seeded "
            "registrations over 7 peers and 7 documents incl. unknown / removed documents and reopen",
    "assumptions": DOCS_ASSUME + ["two registrations never share a nanosecond (the harness sleeps 2 us between them)"],
    "models": [DOCS_Q, DOCS_PEERS],
    "sensitivity": [{"base": "docs-quick", "flip": {"PeerRefreshMoves": "FALSE"}}],
    "drives": [docs_drive("C17", 80, 3000),
               # the list as the rest of the system sees it: registrations and reads through the real store actor, with
               # documents dropped and re-created in between
               {"name": "actor-peers", "cmd": "actor", "args": {"n": {"quick": 120, "thorough": 3000}},
                "trace_module": "ActorTrace",
                "trace_consts": dict(ENTRY, OpenCounts="TRUE", SyncSticky="TRUE", GateSync="TRUE", GateOpen="TRUE", DropClearsSettings="TRUE", Prop='"C17"'),
                "tv_timeout": 3000}],
}
PROPS["C18"] = {
    "level": "model_checking",
    "rule": "model: heads table rebuilt by a scan in table order for every reachable records table (2 documents, 2 authors, "
            "equal timestamps, markers); implementation: latest-by-author-1 and/or records-by-key-1 deleted with plain redb "
            "from real database files, reopened through Store::persistent; heads and key-ordered queries must equal their "
            "definition over the records; plain reopen must change no observer",
    "assumptions": DOCS_ASSUME + ["tables are removed with redb's delete_table, as the repository's own migration tests do"],
    "models": [DOCS_REBUILD],
    "sensitivity": [{"base": "docs-rebuild", "flip": {"RebuildTakesMax": "FALSE"}}],
    "drives": [docs_drive("C18")],
}

# ------------------------------------------------------------------------------------------ C14
ACTOR_CONSTS = dict(ENTRY, Docs="{1, 2}", Programs="<- Progs2", EntryU="<- UA", OpenCounts="TRUE", SyncSticky="TRUE",
                    GateSync="TRUE", GateOpen="TRUE", DropClearsSettings="TRUE")
PROPS["C14"] = {
    "level": "model_checking",
    "rule": "model: 2 clients x every program of 2 requests out of 16 request shapes over 2 documents, all interleavings of "
            "enqueueing, FIFO service; implementation: seeded batches of 1-4 pipelined requests (17 request kinds, 2 documents, "
            "2 cloned handles) on one real actor thread with memory and file stores, store observed after shutdown",
    "assumptions": ["requests of one batch are sent sequentially on one FIFO channel (send order = service order)",
                    "whether a refused drop of a multiply-opened document consumes a handle is left free (both accepted)",
                    "concurrent runs: two OS threads issue 3-6 requests each on cloned handles; TLC searches for an interleaving "
                    "(respecting each client's own order) that explains every reply; real-time order between clients is not used"],
    "models": [
        {"name": "actor", "module": "MCActor", "workers": 12, "timeout": 1500, "consts": ACTOR_CONSTS,
         "invariants": ["AllRepliesOk", "HandlesPositive", "CountsMatch", "AckedHeld", "PolicyLaw"]},
    ],
    "sensitivity": [
        {"base": "actor", "flip": {"OpenCounts": "FALSE"}},
        {"base": "actor", "flip": {"GateSync": "FALSE"}},
        {"base": "actor", "flip": {"SyncSticky": "FALSE"}},
        {"base": "actor", "flip": {"GateOpen": "FALSE"}},
        {"base": "actor", "flip": {"DropClearsSettings": "FALSE"}},
    ],
    "drives": [
        {"name": "actor", "cmd": "actor", "args": {"n": {"quick": 120, "thorough": 4000}, "conc": {"quick": 150, "thorough": 4000}},
         "trace_module": "ActorTrace",
         "trace_consts": dict(ENTRY, OpenCounts="TRUE", SyncSticky="TRUE", GateSync="TRUE", GateOpen="TRUE", DropClearsSettings="TRUE", Prop='"C14"'),
         "tv_timeout": 3000},
    ],
}

# ------------------------------------------------------------------------------------------ C09
PROPS["C09"] = {
    "level": "exploration",
    "rule": "framing: frames of real sessions encoded by the real encoder, concatenated and fed to the real decoder under "
            "every single cut point (stride for long streams), random multi-cuts, byte-by-byte, truncation, one oversize "
            "length prefix per frame, single-bit body corruptions, random bytes; other decoders (message, signed entry, "
            "author heads incl. authors sharing a timestamp, capability, ticket, filter): round trip + mutated encodings + random bytes; a case is one "
            "decoder call; non-trivial = every call (each has a distinct input)",
    "assumptions": ["only the framing state machine and the outcome alphabet {value, error} are specified; exhaustive "
                    "no-panic over all byte strings is NOT claimed (DESIGN.md §8) — the count of inputs actually run is reported",
                    "pinned encodings are the constants of the repository's own snapshot tests"],
    "models": [
        {"name": "framing-chunks", "module": "MCFraming", "workers": 2, "consts": {"Lens": "<- L3", "MaxChunk": 4},
         "invariants": ["InOrderOnce", "OnlyComplete", "AllDelivered"]},
    ],
    "drives": [
        {"name": "codec", "cmd": "codec", "args": {"n": {"quick": 6, "thorough": 150}},
         "trace_module": "FramingTrace", "trace_consts": {}, "tv_timeout": 3000, "spec": "TSpec"},
    ],
}

# ------------------------------------------------------------------------------------------ C10
PROPS["C10"] = {
    "level": "model_checking",
    "rule": "model: every frame sequence (<= 4 frames + end of stream) over 9 frame kinds to the acceptor with the local "
            "replica closed / sync disabled / actor shut down before any frame, accept or reject; implementation: seeded "
            "scripts (1-4 frames + faults) against the real BobState::run + into_outcome and the real run_alice over duplex "
            "streams with a real store actor, plus real initiator-vs-acceptor pairs through a frame proxy injecting faults, "
            "cuts and half-frame cuts at message k; every run under an 8 s watchdog (HANG is data)",
    "assumptions": ["a clean end-of-stream between frames is indistinguishable from regular termination, so count mirroring "
                    "is demanded only when no proxy cut was injected",
                    "tokio duplex streams stand in for QUIC streams"],
    "models": [
        {"name": "syncsession", "module": "SyncSession", "workers": 4,
         "consts": {"MaxFrames": 4, "ProgressRestored": "TRUE"},
         "invariants": ["OutcomeReportable", "DeclineIsInert"], "properties": ["EndsWhenClosed"]},
    ],
    "sensitivity": [{"base": "syncsession", "flip": {"ProgressRestored": "FALSE"}}],
    "drives": [
        {"name": "syncsession", "cmd": "syncsession", "args": {"n": {"quick": 1200, "thorough": 20000}},
         "trace_module": "SyncSessionTrace", "trace_consts": {"ProgressRestored": "TRUE"}, "spec": "TSpec",
         "tv_timeout": 3000, "timeout": 7200},
    ],
}

# ------------------------------------------------------------------------------------------ C11
import re
import vlib as _v
LIVE_CONSTS = {"MaxDials": 3, "FixAbortLeak": "TRUE", "KeepResyncOnAccept": "TRUE", "SyncingChoices": "<- AnySyncing",
               "DialReasons": "<- TwoReasons", "Yielder": 2, "MaxLeaves": 0, "JoinWaitsForQuiet": "TRUE", "OtherReasonsMayQueue": "FALSE"}
_LIVE = {"yielder": 2}     # which node yields in a simultaneous dial, probed from the code before schedules are exported
LIVE_INV = ["NoTwoSessions", "SlotFreed", "NoResyncLost", "SimulExactlyOne", "NotFoundWhenNotSyncing"]


def livesync_schedules(wdir, tier, seed, cov):
    """TLC is the test generator: export schedules (hist) of LiveSync.tla behaviours that end quiescent."""
    import os, subprocess
    # Which of the two nodes yields in a simultaneous dial is not C11's business (exactly one must): ask the code once
    # (both nodes dial, each is handed the other's request) and generate / validate with that direction.  If the probe
    # finds no consistent answer the default direction is used and the traces show the inconsistency.
    try:
        pr = subprocess.run([_v.VDRIVE, "livesync", "--probe", "1", "--out", os.path.join(wdir, "probe.ndjson")],
                            capture_output=True, text=True, timeout=120)
        m = re.search(r'"yielder":\s*(\d)', pr.stdout)
        _LIVE["yielder"] = int(m.group(1)) if m and m.group(1) in ("1", "2") else 2
    except Exception:
        _LIVE["yielder"] = 2
    cov["tie_break_probe"] = {"yielder_node": _LIVE["yielder"]}
    LC = dict(LIVE_CONSTS, Yielder=_LIVE["yielder"])
    out = os.path.join(wdir, "livesync-schedules.json")
    open(out, "w").close()
    # (a) edge coverage: one schedule per transition of the 2-dial state graph = the discovery path of the source state
    #     followed by the action, so that every (state, action) pair of the model is replayed on the real code
    c2 = dict(LC, MaxDials=2)
    n1, r1 = _v.export_schedules("MCLiveSync", _v.cfg_text(consts=c2, view="view", extra="ACTION_CONSTRAINT EmitEdges"), out,
                                 workers=1, tag="C11-sched")
    # (a') the same with a changing sync set: one dial, one leave (and re-join), a content download queued and reported beside
    cl = dict(LC, MaxDials=1, MaxLeaves=1, SyncingChoices="<- Both")
    n1b, r1b = _v.export_schedules("MCLiveSync", _v.cfg_text(consts=cl, view="view", extra="ACTION_CONSTRAINT EmitEdges"), out,
                                   workers=1, tag="C11-sched")
    n1c, r1c = _v.export_schedules("MCLiveSync", _v.cfg_text(consts=dict(LC, MaxDials=3, MaxLeaves=2), invariants=["EmitSchedules"], view="view"), out,
                                   simulate=f"num={500 if tier == 'quick' else 6000}", seed=seed, depth=80, workers=4,
                                   limit=1500 if tier == "quick" else 15000, tag="C11-sched")
    num = 1500 if tier == "quick" else 12000
    n2, r2 = _v.export_schedules("MCLiveSync", _v.cfg_text(consts=LC, invariants=["EmitSchedules"], view="view"), out,
                                 simulate=f"num={num}", seed=seed, depth=80, workers=4, limit=6000 if tier == "quick" else 40000,
                                 tag="C11-sched")
    n3 = 0
    if tier == "thorough":
        c4 = dict(LC, MaxDials=4, DialReasons="<- AllReasons")
        n3, r3 = _v.export_schedules("MCLiveSync", _v.cfg_text(consts=c4, invariants=["EmitSchedules"], view="view"), out,
                                     simulate="num=6000", seed=seed, depth=120, workers=4, limit=20000, tag="C11-sched")
    cov["schedules_from_tlc"] = {"one_per_transition_maxdials2": n1, "one_per_transition_leave_join_download": n1b,
                                 "simulated_leave_join_download": n1c, "simulated_maxdials3": n2, "simulated_maxdials4": n3}
    _v.log(f"[C11] schedules exported from TLC: {n1} (one per transition, MaxDials=2) + {n2} (simulation, MaxDials=3) + {n3} (MaxDials=4)")
    return out


PROPS["C11"] = {
    "level": "model_checking",
    "rule": "model: all interleavings of <= 3 dials (new neighbour, sync report, direct join, resync) between two nodes with "
            "request loss / delivery, accept or decline, lost or delivered abort replies, independent success or failure of the "
            "two session ends and independent handling of the two task results, document synced at both or at one node; "
            "implementation: TLC-generated schedules (one per transition of the 2-dial state graph, simulated behaviours for 3-4 dials) are "
            "replayed on two real LiveActors; slot, resync flag, accept decision and started dials of both nodes are validated "
            "after every action and all invariants are evaluated on the validated trace",
    "assumptions": ["a started dial is captured instead of connecting (hook H6); task results are synthesised as "
                    "connect_and_sync / handle_connection produce them (C10 pins those)",
                    "two nodes, one document; the node with the greater endpoint id is node 2 (both dial directions are explored)",
                    "which node yields in a simultaneous dial is probed from the code before the schedules are exported (the property "
                    "only demands that exactly one does); the model itself is checked for the code's direction (node 2), the other is symmetric"],
    "models": [
        {"name": "livesync", "module": "MCLiveSync", "workers": 12, "timeout": 1800, "consts": LIVE_CONSTS,
         "invariants": LIVE_INV, "view": "view"},
        {"name": "livesync-all-reasons", "module": "MCLiveSync", "workers": 14, "timeout": 3000,
         "consts": dict(LIVE_CONSTS, DialReasons="<- AllReasons"), "invariants": LIVE_INV, "view": "view", "tiers": ("thorough",)},
        # the sync set changes under the sessions: a node leaves (its state is dropped), re-joins once nothing of it is in
        # flight, downloads are queued and reported beside
        {"name": "livesync-leave", "module": "MCLiveSync", "workers": 12, "timeout": 1800,
         "consts": dict(LIVE_CONSTS, MaxDials=2, MaxLeaves=1), "invariants": LIVE_INV, "view": "view"},
        {"name": "livesync-leave-deep", "module": "MCLiveSync", "workers": 14, "timeout": 3000,
         "consts": dict(LIVE_CONSTS, MaxDials=3, MaxLeaves=1), "invariants": LIVE_INV, "view": "view", "tiers": ("thorough",)},
    ],
    "sensitivity": [
        {"base": "livesync", "flip": {"FixAbortLeak": "FALSE"}},
        {"base": "livesync", "flip": {"KeepResyncOnAccept": "FALSE"}},
        # a node that re-joins while one of its sessions is still running can end up with two sessions at once
        {"base": "livesync-leave", "flip": {"JoinWaitsForQuiet": "FALSE"}},
    ],
    "drives": [
        {"name": "livesync", "cmd": "livesync", "args": {}, "schedules_from": livesync_schedules,
         "trace_module": "LiveSyncTrace", "spec": "TSpec",
         "trace_consts": lambda: {"MaxDials": 1000, "FixAbortLeak": "TRUE", "KeepResyncOnAccept": "TRUE", "SyncingChoices": "{{}}",
                                  "DialReasons": "{}", "Yielder": _LIVE["yielder"], "MaxLeaves": 1000, "JoinWaitsForQuiet": "TRUE", "OtherReasonsMayQueue": "TRUE"},
         "trace_invariants": LIVE_INV, "tv_timeout": 3000, "timeout": 7200},
        # thorough: complete nodes on the loopback network, every call of the slot transition functions (hook H10) validated
        # against the node-local rules (LiveNodeTrace, extension X05).  The verdict does not depend on timing; if the local
        # network is not usable the drive records nothing and says so in the evidence instead of failing the check.
        {"name": "liveslots", "custom": lambda w, t, s, p: _live_slot_traces(w, t, s, p, optional=True, n=120), "cmd": "-", "args": {},
         "trace_module": "LiveNodeTrace", "trace_consts": {"KeepResyncOnAccept": "TRUE"},
         "trace_invariants": ["SlotsOk", "NoResyncLost"], "tv_timeout": 3000, "timeout": 7200, "tiers": ("thorough",)},
    ],
}

# ------------------------------------------------------------------------------------------ C06
PROPS["C06"] = {
    "level": "fault_enumeration",
    "rule": "model: every interleaving of <= 3 calls (pruning and non-pruning inserts, removal of the document, failing calls) with transaction ageing, flush and a crash "
            "before any table access; implementation: seeded histories (5-10 calls: local / remote inserts that prune or not, "
            "prefix deletes, peers, policies, removal, flush, snapshot reads, open/close over 2 documents); for EVERY call and "
            "EVERY table access of that call the history is re-run with the age-based commit forced right before that access, "
            "and after every call from there on the database file is copied without commit, reopened and observed; a case is "
            "one crash image; distinct_nontrivial counts crash images (each is a distinct (history, commit placement, call))",
    "assumptions": ["SyncHandle::shutdown() is treated as a flush point (the actor commits before handing the store back; it is the last point at which an exiting process can have its acknowledged writes made durable): the actor drive images the file right after it returned", "redb's own crash atomicity (torn pages, fsync ordering) is trusted: images are file copies taken between "
                    "two calls of a quiescent single-threaded process",
                    "live states are taken from a baseline run of the same deterministic history (clock pinned by hook H2)"],
    "models": [
        {"name": "storetx", "module": "MCStoreTx", "workers": 6,
         "consts": dict(ENTRY, Universe="<- UTx", MaxCalls=3, PutAtomic="TRUE", FailKeepsTx="TRUE", RemoveAtomic="TRUE"),
         "invariants": ["CrashStateIsBoundary", "DurableIsNormal", "LiveIsAcked", "DurableDerivedAgree"]},
    ],
    "sensitivity": [{"base": "storetx", "flip": {"PutAtomic": "FALSE"}},
                    {"base": "storetx", "flip": {"FailKeepsTx": "FALSE"}},
                    {"base": "storetx", "flip": {"RemoveAtomic": "FALSE"}}],
    "drives": [
        {"name": "storetx", "cmd": "storetx", "args": {"n": {"quick": 14, "thorough": 400}},
         "trace_module": "StoreTxTrace", "trace_consts": dict(ENTRY, Prop='"C06"'), "tv_timeout": 3000, "timeout": 7200},
        # the same through the store actor (its idle-timer flush): writes, then idleness and / or flush_store in four shapes
        {"name": "storetx-actor", "cmd": "storetx", "args": {"n": {"quick": 8, "thorough": 120}, "actor": 1},
         "trace_module": "StoreTxTrace", "trace_consts": dict(ENTRY, Prop='"C06"'), "tv_timeout": 3000, "timeout": 7200},
    ],
}

# ------------------------------------------------------------------------------------------ C04
PROPS["C04"] = {
    "level": "model_checking",
    "rule": "model: 3 replicas, <= 3 local writes/deletions over a universe with prefix deletions and ties, bag network with "
            "loss / duplication / reordering, partial sessions (any subsets learnt), complete sessions, closing phase over the "
            "chain 1-2, 2-3; implementation: 2..5 real file-backed replicas, seeded schedules (12-36 steps) of writes with skewed "
            "clocks, gossip deliveries (dup / drop / reorder), real sessions cut after message k or complete, restarts, then "
            "complete sessions along the chain until nothing moves",
    "assumptions": ["restarts are graceful (dropping the store flushes); crash atomicity is C06's subject",
                    "gossip delivery is modelled as insert_remote_entry of the entry as signed by the writer (what receive_loop does)",
                    "the live engine's own networking (iroh-gossip, QUIC) is not exercised here"],
    "models": [
        {"name": "swarm", "module": "MCSwarm", "workers": 12, "timeout": 1800,
         "consts": dict(ENTRY, Replicas="{1, 2, 3}", Universe="<- USw", MaxWrites=3, ClosingSeq="<- Chain3", SessionsJoin="TRUE"),
         "invariants": ["OnlyWritten", "Normal", "ClosedMeansConverged"]},
    ],
    "sensitivity": [{"base": "swarm", "flip": {"SessionsJoin": "FALSE"}},
                    {"base": "swarm", "flip": {"ParentsSeeMarkers": "FALSE"}}],
    "drives": [
        {"name": "swarm", "cmd": "swarm", "args": {"n": {"quick": 150, "thorough": 4000}},
         "trace_module": "SwarmTrace", "trace_consts": dict(ENTRY), "trace_invariants": ["OnlyWritten", "Normal"],
         "tv_timeout": 3000, "timeout": 7200},
    ],
}


# ============================================================================================
# Extensions of the specification beyond the 18 listed properties (bin/check X..; not in MANIFEST.json)
EXTRA = {}
API_CONSTS = dict(ENTRY, OpenCounts="TRUE", SyncSticky="TRUE", GateSync="TRUE", GateOpen="TRUE", DropClearsSettings="TRUE")
EXTRA["X01"] = {
    "level": "model_checking",
    "rule": "client API and engine composition (src/api.rs, src/api/actor.rs, src/engine.rs DefaultAuthor, live.rs start_sync / "
            "leave): model = all histories (<= 7 calls) of 16 call shapes over 2 documents and 2 authors with restarts and the "
            "store's own commits; implementation = seeded histories (8-25 calls) on a real node (memory and persistent), graceful "
            "restarts on the same directory and crash images (directory copied without shutdown, second node started on the copy)",
    "assumptions": ["the trace specification runs with SetDefaultFlushes = FALSE, which is what DefaultAuthor::set does (it does not "
                    "commit the store before writing the default-author file); the design value TRUE is what the model's "
                    "NoDanglingDefault invariant needs - see DESIGN.md 12.6",
                    "a well-behaved client (BalancedCloses) in the model; traces follow whatever the driver did, including repeated closes"],
    "models": [
        {"name": "api", "module": "MCApi", "workers": 6,
         "consts": dict(API_CONSTS, SetDefaultFlushes="TRUE", BalancedCloses="TRUE", Docs="{1, 2}", AuthorIds="{1, 2}",
                        EntryU="<- UApi", MaxCalls=6),
         "invariants": ["InvDefaultExists", "InvLiveHoldsHandle", "InvNoDanglingDefault", "InvMineUsable", "InvOpenExists"]},
        {"name": "api-deep", "module": "MCApi", "workers": 12, "tiers": ("thorough",), "timeout": 3000,
         "consts": dict(API_CONSTS, SetDefaultFlushes="TRUE", BalancedCloses="TRUE", Docs="{1, 2}", AuthorIds="{1, 2, 3}",
                        EntryU="<- UApi", MaxCalls=8),
         "invariants": ["InvDefaultExists", "InvLiveHoldsHandle", "InvNoDanglingDefault", "InvMineUsable", "InvOpenExists"]},
    ],
    "sensitivity": [{"base": "api", "flip": {"SetDefaultFlushes": "FALSE"}},
                    {"base": "api", "flip": {"BalancedCloses": "FALSE"}}],
    "drives": [
        {"name": "api", "cmd": "api", "args": {"n": {"quick": 60, "thorough": 3000}},
         "trace_module": "ApiTrace", "trace_consts": dict(API_CONSTS, SetDefaultFlushes="FALSE"), "tv_timeout": 3000},
    ],
}

DL_INV = ["TasksMatchQueue", "NoEmptyWaiters", "ReadyNotOverdue", "MayMeansOwed", "ReadyMeansIdle"]
EXTRA["X02"] = {
    "level": "model_checking",
    "rule": "content-download bookkeeping of the live actor (live.rs on_replica_event / start_download / on_download_ready / "
            "on_neighbor_content_ready / tail of on_sync_finished, state.rs may_emit_ready): model = all interleavings (<= 8 / 10 "
            "steps) of remote inserts (download wanted or not, content available at the sender or not), neighbour announcements, "
            "download completions (ok / failed), finished syncs, content arriving by other means, leave / join over 2 documents "
            "and 2-3 hashes; implementation = seeded histories on a real LiveActor whose handlers are called directly (hooks H6, H8), "
            "download tasks played by the driver",
    "assumptions": ["the trace specification runs with ReadyToAllDocs = FALSE, which is what on_download_ready does (ContentReady is "
                    "sent only to the document whose insert started the task); the design value TRUE is what AllWaitersHear needs - "
                    "see DESIGN.md 12.6",
                    "gossip broadcasts to neighbours are not observed"],
    "models": [
        {"name": "downloads", "module": "DownloadsModel", "workers": 6,
         "consts": dict(ReadyToAllDocs="FALSE", Docs="{1, 2}", Hashes="{1, 2}", MaxSteps=8), "invariants": DL_INV},
        {"name": "downloads-design", "module": "DownloadsModel", "workers": 6,
         "consts": dict(ReadyToAllDocs="TRUE", Docs="{1, 2}", Hashes="{1, 2}", MaxSteps=7), "invariants": DL_INV + ["AllWaitersHear"]},
        {"name": "downloads-deep", "module": "DownloadsModel", "workers": 12, "tiers": ("thorough",), "timeout": 3000,
         "consts": dict(ReadyToAllDocs="FALSE", Docs="{1, 2}", Hashes="{1, 2, 3}", MaxSteps=10), "invariants": DL_INV},
    ],
    "sensitivity": [{"base": "downloads-design", "flip": {"ReadyToAllDocs": "FALSE"}}],
    "drives": [
        {"name": "downloads", "cmd": "downloads", "args": {"n": {"quick": 150, "thorough": 5000}},
         "trace_module": "DownloadsTrace", "trace_consts": dict(ReadyToAllDocs="FALSE"), "tv_timeout": 3000},
    ],
}

EXTRA["X03"] = {
    "level": "exploration",
    "rule": "system level: 2-3 complete nodes (endpoint, router, gossip, blobs, docs engine with live / store / RPC actors) on the "
            "real local network share one document through a write ticket (create + share on node 1, import = import_namespace + "
            "start_sync on the others, with or without entries already present), write and delete concurrently through the client "
            "API under a skewed clock; the contents of every node are read through the API after every write and after the nodes "
            "have gone quiet; a case is one history, non-trivial = every history (>= 4 writes on >= 2 nodes)",
    "assumptions": ["timing: the driver waits until all nodes have shown equal contents for 400 ms, at most 60 s; a history that does not "
                    "get quiet in that time is reported (EXT-VIOLATION), which on a heavily loaded machine can be a false report - the "
                    "reason this check is an extension and not part of any property's check",
                    "the network is the loopback interface without loss; loss, duplication and cut sessions are covered by C04's own drive"],
    "models": [],
    "drives": [
        {"name": "nodes", "cmd": "nodes", "args": {"n": {"quick": 12, "thorough": 400}},
         "trace_module": "NodesTrace", "trace_consts": dict(ENTRY, GarbageTolerated="TRUE"), "tv_timeout": 3000, "timeout": 7200},
    ],
}


def _run_repo_tests(raw):
    """The repository's own test suite, built with the feature verif into a separate target directory, with the
    hook sinks (H9 store actor, H10 sync slots) writing into `raw`.  Returns (tests run, tests passed)."""
    import subprocess as _sp, os, re
    repo = os.environ.get("VERIF_REPO", "/repo")
    os.makedirs(raw, exist_ok=True)
    env = dict(os.environ, IROH_DOCS_VERIF_TRACE=raw, CARGO_TARGET_DIR=os.path.join(_v.WORK, "target-repotests"),
               CARGO_INCREMENTAL="0", CARGO_NET_OFFLINE="true")
    cmd = ["cargo", "nextest", "run", "--features", "verif", "--workspace", "--no-fail-fast", "--test-threads", "8", "--offline"]
    p = _sp.run(cmd, cwd=repo, env=env, capture_output=True, text=True, timeout=3600)
    tail = (p.stdout + p.stderr)[-3000:]
    m = re.search(r"(\d+) tests run: (\d+) passed", p.stdout + p.stderr)
    if not m:
        raise _v.ToolError("the repository's test suite did not run (feature verif):\n" + tail)
    return int(m.group(1)), int(m.group(2))


def _repo_test_traces(wdir, tier, seed, trace_path):
    """Run the repository's own test suite with hook H9 recording the store actors, and turn the per-process
    files into one ndjson trace: one run per (process, actor thread, document)."""
    import glob as _glob, collections as _c, os, json
    raw = os.path.join(wdir, "x04raw")
    ran, passed = _run_repo_tests(raw)
    runs = _c.defaultdict(list)
    for f in sorted(_glob.glob(raw + "/*.ndjson")):
        for line in open(f):
            line = line.strip()
            if line:
                e = json.loads(line)
                runs[(os.path.basename(f), e["actor"], e["ns"])].append(e)
    n = 0
    with open(trace_path, "w") as out:
        for i, (k, evs) in enumerate(sorted(runs.items())):
            evs.sort(key=lambda e: e["seq"])
            out.write(json.dumps({"ev": "Reset", "run": i, "seed": seed, "ops": [], "proc": k[0], "actor": k[1]}, separators=(",", ":")) + "\n")
            for e in evs:
                out.write(json.dumps({"ev": "Act", "op": e["op"], "sync": e["sync"], "sub": e["sub"], "pre": e["pre"], "post": e["post"]},
                                     separators=(",", ":")) + "\n")
                n += 1
    summ = {"histories": len(runs), "trace_lines": n + len(runs), "tests_run": ran, "tests_passed": passed,
            "processes_with_actors": len({k[0] for k in runs})}
    json.dump(summ, open(trace_path[:-len(".ndjson")] + ".summary.json", "w"))
    return summ


EXTRA["X04"] = {
    "level": "exploration",
    "rule": "traces recorded from the real store actors while the repository's own 92 tests run (hook H9, built with the feature "
            "verif into a separate target directory): every request on a document with the document's {open, handles, sync, "
            "subscribers} before and after, validated against the open/close counting and sync-switch transition relation; a case "
            "is one (test process, actor, document) run",
    "assumptions": ["the suite is run with 8 test threads as in the baseline command; a failing test is not a rejection here (the "
                    "baseline decides that), only its recorded actor behaviour is judged",
                    "results of requests are not recorded (replies travel on one-shot channels inside each handler); the state "
                    "transition is"],
    "models": [],
    "drives": [
        {"name": "repotests", "custom": _repo_test_traces, "cmd": "-", "args": {},
         "trace_module": "ActorStateTrace", "trace_consts": {}, "tv_timeout": 3000, "timeout": 7200},
    ],
}


def _live_slot_records(files, seed, out, first_run=0, source=""):
    """Turn the H10 lines of some processes into runs: one per per-document state of one live actor (inst > 0), plus one
    per process for the calls on documents that are not in the sync set (inst = 0).  An exit line is attached to the
    entry line it names (`of`), so one record = one call."""
    import json, collections as _c, os
    nruns = nlines = 0
    tally = _c.Counter()
    for f in files:
        enters, exits = [], {}
        for line in open(f):
            line = line.strip()
            if not line:
                continue
            e = json.loads(line)
            if e["k"] == "enter":
                enters.append(e)
            else:
                exits[e["of"]] = e
        groups = _c.defaultdict(list)
        for e in sorted(enters, key=lambda e: e["seq"]):
            groups[e["inst"]].append(e)
        for inst, evs in sorted(groups.items()):
            ranks = {}
            out.write(json.dumps({"ev": "Reset", "run": first_run + nruns, "seed": seed, "ops": [], "inst": inst,
                                  "proc": os.path.basename(f), "source": source}, separators=(",", ":")) + "\n")
            nruns += 1
            nlines += 1
            for e in evs:
                x = exits.get(e["seq"])
                p = ranks.setdefault(e["peer"], len(ranks) + 1) if e["peer"] else 0
                if e["fn"] == "insert":
                    rec = {"ev": "Insert", "inst": inst, "fresh": e["fresh"]}
                elif e["fn"] == "remove":
                    rec = {"ev": "Remove", "inst": inst}
                else:
                    ret = ""
                    if x is not None:
                        r = x["ret"]
                        if e["fn"] == "finish":
                            ret = ("started" if r[0] else "idle") + ("+resync" if r[1] else "")
                        elif isinstance(r, bool):
                            ret = "true" if r else "false"
                        else:
                            ret = str(r)
                    rec = {"ev": "Call", "fn": e["fn"], "inst": inst, "p": p, "known": e["pre"] is not None,
                           "pre": e["pre"] if e["pre"] is not None else [0, False], "reason": e.get("reason", ""),
                           "yld": bool(e.get("yield", False)), "origin": e.get("origin", ""), "exited": x is not None, "ret": ret,
                           "post": (x["post"] if x is not None and x["post"] is not None else [0, False])}
                    tally[(e["fn"], rec["pre"][0] if rec["known"] else -1, ret)] += 1
                out.write(json.dumps(rec, separators=(",", ":")) + "\n")
                nlines += 1
    return nruns, nlines, tally


def _live_slot_traces(wdir, tier, seed, trace_path, optional=False, n=None):
    """X05: complete nodes on the loopback network (vdrive nodes) and, in the thorough tier, the repository's own test
    suite, with hook H10 recording every call of the sync-slot transition functions of engine/state.rs."""
    import glob as _glob, os, json, subprocess as _sp
    raw = os.path.join(wdir, "x05raw")
    os.makedirs(raw, exist_ok=True)
    n = n or {"quick": 30, "thorough": 400}[tier]
    env = dict(os.environ, IROH_DOCS_VERIF_TRACE=raw)
    try:
        p = _sp.run([_v.VDRIVE, "nodes", "--seed", str(seed), "--n", str(n), "--out", os.path.join(wdir, "x05nodes.ndjson")],
                    env=env, capture_output=True, text=True, timeout=7000)
        failed = p.returncode != 0
        tail = (p.stdout + p.stderr)[-2000:]
    except Exception as e:      # noqa
        failed, tail = True, str(e)
    if failed and not optional:
        raise _v.ToolError("vdrive nodes failed:\n" + tail)
    files = sorted(_glob.glob(raw + "/*.live.jsonl"))
    ran = passed = 0
    with open(trace_path, "w") as out:
        r1, l1, tally = _live_slot_records(files, seed, out, 0, "vdrive nodes")
        r2 = l2 = 0
        if tier == "thorough" and not optional:
            raw2 = os.path.join(wdir, "x05raw-tests")
            ran, passed = _run_repo_tests(raw2)
            r2, l2, t2 = _live_slot_records(sorted(_glob.glob(raw2 + "/*.live.jsonl")), seed, out, r1, "repository tests")
            tally.update(t2)
    if r1 == 0 and not optional:
        raise _v.ToolError("hook H10 recorded nothing (is the feature verif built in?)")
    summ = {"histories": r1 + r2, "trace_lines": l1 + l2, "node_histories": n, "runs_from_nodes": r1, "runs_from_repo_tests": r2,
            "repo_tests_run": ran, "repo_tests_passed": passed,
            "calls_by_function_slot_result": {"%s/slot=%s/%s" % k: v for k, v in sorted(tally.items(), key=str)}}
    json.dump(summ, open(trace_path[:-len(".ndjson")] + ".summary.json", "w"))
    return summ


EXTRA["X05"] = {
    "level": "exploration",
    "rule": "sync-slot coordination (engine/state.rs; C11's subject) on traces of COMPLETE nodes: 2-3 nodes on the loopback network "
            "share a document and write concurrently (the X03 drive), in the thorough tier also the repository's own tests; hook H10 "
            "logs every start_connect / accept_request / finish / connect_declined / insert / remove with the slot on entry and the "
            "return value and slot on exit; each per-document state of each live actor is one run, validated against the node-local "
            "rules of LiveSync.tla (no merging of logs across nodes); a case is one call",
    "assumptions": ["node-local: the global clauses of C11 (never two sessions, exactly one of two crossing dials accepted) are decided by "
                    "TLC on the composition (C11's model) given that every node follows the local rules, which is what is validated here",
                    "which way a node answers a crossing dial is not prescribed, only that it always answers one peer the same way"],
    "models": [],
    "drives": [
        {"name": "liveslots", "custom": _live_slot_traces, "cmd": "-", "args": {},
         "trace_module": "LiveNodeTrace", "trace_consts": {"KeepResyncOnAccept": "TRUE"},
         "trace_invariants": ["SlotsOk", "NoResyncLost"], "tv_timeout": 3000, "timeout": 7200},
    ],
}


GOSSIP_INV = ["ListeningWhileSyncing", "NothingMuted", "NothingMissed", "Tidy"]
EXTRA["X06"] = {
    "level": "model_checking",
    "rule": "gossip topic lifecycle of a document inside one node (src/engine/gossip.rs GossipState join / quit / progress / broadcast and "
            "receive_loop): model = all histories (<= 9 steps) of start_sync, leave, local writes, well-formed and undecodable messages "
            "arriving on the topic, reaping of ended receive loops; implementation = 2-3 complete nodes on the loopback network (the X03 "
            "drive) in which, in two histories out of three, a member of the topic broadcasts bytes that are no Op before the concurrent "
            "writes start; a case is one history",
    "assumptions": ["the trace specification runs with GarbageTolerated = FALSE, which is what receive_loop does (`postcard::from_bytes(..)?` "
                    "ends the loop, GossipState::progress then forgets the topic): histories with an undecodable message may stay diverged, "
                    "all others must converge; the design value TRUE is what ListeningWhileSyncing needs - see DESIGN.md 12.6",
                    "timing: a history with an injected message is given 8 s to converge, the others 60 s (as in X03)"],
    "models": [
        {"name": "gossip", "module": "Gossip", "workers": 4, "consts": {"MaxSteps": 9, "GarbageTolerated": "TRUE"}, "invariants": GOSSIP_INV},
    ],
    "sensitivity": [{"base": "gossip", "flip": {"GarbageTolerated": "FALSE"}}],
    "drives": [
        {"name": "nodes-garbage", "cmd": "nodes", "args": {"n": {"quick": 6, "thorough": 60}, "garbage": 1},
         "trace_module": "NodesTrace", "trace_consts": dict(ENTRY, GarbageTolerated="FALSE"), "tv_timeout": 3000, "timeout": 7200},
        # control: the same extra subscription without the undecodable message - every history must converge
        {"name": "nodes-control", "cmd": "nodes", "args": {"n": {"quick": 6, "thorough": 60}, "garbage": 2},
         "trace_module": "NodesTrace", "trace_consts": dict(ENTRY, GarbageTolerated="TRUE"), "tv_timeout": 3000, "timeout": 7200},
    ],
}
