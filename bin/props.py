"""Per-property pipeline definitions (see bin/check)."""
from vlib import DESIGN_CONSTS

D = dict(DESIGN_CONSTS)


def consts(**kw):
    c = dict()
    c.update(kw)
    return c


ENTRY = {k: D[k] for k in ("ParentsSeeMarkers", "EmptyKeyIsParent", "PrefixBoundCarry")}
RANGER = dict(D)

PROPS = {}

# ------------------------------------------------------------------------------------------ C02
PROPS["C02"] = {
    "level": "model_checking",
    "rule": "model: every reachable (offered, store) over the universe, i.e. every order and repetition of "
            "<= MaxOffered entries; implementation: seeded histories (<= 24 ops, 12 keys incl. empty / 0xFF-edged / "
            "prefix-related, 2 authors, markers, duplicates) on memory and file stores; a case is one history",
    "assumptions": ["ed25519 / BLAKE3 are trusted (entries are validly signed by construction)",
                    "projection of ids to byte-order ranks preserves every comparison the code makes",
                    "TLC and the CommunityModules are correct"],
    "models": [
        {"name": "bytes-lemmas", "module": "MCBytes", "init": "Init", "next": "Next", "workers": 2},
        {"name": "replica-quick", "module": "MCReplica", "workers": 8,
         "consts": dict(ENTRY, Universe="<- U_quick", MaxOffered=3, HeadMonotone="TRUE", RemoveClearsHeads="TRUE"),
         "invariants": ["StoreIsKeptOfOffered", "Normalized", "HeadsExact"], "properties": ["StepOk"],
         "tiers": ("quick",)},
        {"name": "replica-thorough", "module": "MCReplica", "workers": 14, "timeout": 3000,
         "consts": dict(ENTRY, Universe="<- U_thorough", MaxOffered=3, HeadMonotone="TRUE", RemoveClearsHeads="TRUE"),
         "invariants": ["StoreIsKeptOfOffered", "Normalized", "HeadsExact"], "properties": ["StepOk"],
         "tiers": ("thorough",)},
    ],
    "sensitivity": [
        {"base": "replica-quick", "flip": {"ParentsSeeMarkers": "FALSE"}, "tiers": ("quick",)},
        {"base": "replica-quick", "flip": {"EmptyKeyIsParent": "FALSE"}, "tiers": ("quick",)},
        {"base": "replica-quick", "flip": {"PrefixBoundCarry": "FALSE"}, "tiers": ("quick",)},
    ],
    "drives": [
        {"name": "replica-c02", "cmd": "replica", "args": {"profile": "c02", "n": {"quick": 300, "thorough": 6000}},
         "trace_module": "ReplicaTrace", "trace_consts": dict(RANGER, Prop='"C02"')},
    ],
}
