"""Per-property pipeline definitions (see bin/check)."""
from vlib import DESIGN_CONSTS

D = dict(DESIGN_CONSTS)


def consts(**kw):
    c = dict()
    c.update(kw)
    return c


ENTRY = {k: D[k] for k in ("ParentsSeeMarkers", "EmptyKeyIsParent", "PrefixBoundCarry")}
RANGER = dict(D)

PROPS = {}

# ------------------------------------------------------------------------------------------ C02
PROPS["C02"] = {
    "level": "model_checking",
    "rule": "model: every reachable (offered, store) over the universe, i.e. every order and repetition of "
            "<= MaxOffered entries; implementation: seeded histories (<= 24 ops, 12 keys incl. empty / 0xFF-edged / "
            "prefix-related, 2 authors, markers, duplicates) on memory and file stores; a case is one history",
    "assumptions": ["ed25519 / BLAKE3 are trusted (entries are validly signed by construction)",
                    "projection of ids to byte-order ranks preserves every comparison the code makes",
                    "TLC and the CommunityModules are correct"],
    "models": [
        {"name": "bytes-lemmas", "module": "MCBytes", "init": "Init", "next": "Next", "workers": 2},
        {"name": "replica-quick", "module": "MCReplica", "workers": 8,
         "consts": dict(ENTRY, Universe="<- U_quick", MaxOffered=3, HeadMonotone="TRUE", RemoveClearsHeads="TRUE"),
         "invariants": ["StoreIsKeptOfOffered", "Normalized", "HeadsExact"], "properties": ["StepOk"],
         "tiers": ("quick",)},
        {"name": "replica-thorough", "module": "MCReplica", "workers": 14, "timeout": 3000,
         "consts": dict(ENTRY, Universe="<- U_thorough", MaxOffered=3, HeadMonotone="TRUE", RemoveClearsHeads="TRUE"),
         "invariants": ["StoreIsKeptOfOffered", "Normalized", "HeadsExact"], "properties": ["StepOk"],
         "tiers": ("thorough",)},
    ],
    "sensitivity": [
        {"base": "replica-quick", "flip": {"ParentsSeeMarkers": "FALSE"}, "tiers": ("quick",)},
        {"base": "replica-quick", "flip": {"EmptyKeyIsParent": "FALSE"}, "tiers": ("quick",)},
        {"base": "replica-quick", "flip": {"PrefixBoundCarry": "FALSE"}, "tiers": ("quick",)},
    ],
    "drives": [
        {"name": "replica-c02", "cmd": "replica", "args": {"profile": "c02", "n": {"quick": 300, "thorough": 6000}},
         "trace_module": "ReplicaTrace", "trace_consts": dict(RANGER, Prop='"C02"')},
    ],
}

REPLICA_Q = {"name": "replica-quick", "module": "MCReplica", "workers": 8,
             "consts": dict(ENTRY, Universe="<- U_quick", MaxOffered=3, HeadMonotone="TRUE", RemoveClearsHeads="TRUE"),
             "invariants": ["StoreIsKeptOfOffered", "Normalized", "HeadsExact"], "properties": ["StepOk"]}

# ------------------------------------------------------------------------------------------ C13
PROPS["C13"] = {
    "level": "model_checking",
    "rule": "model: heads table after every reachable history of the replica model incl. removal/re-creation; all head "
            "sets over 4 authors x timestamps {1,2,127,128} x limits around every item boundary; implementation: heads, "
            "has_news_for_us after every step of seeded histories, encode/decode under ~9 limits per head set",
    "assumptions": ["size limits >= 1 (an empty postcard vector already needs one byte)",
                    "timestamps below 2^31 in traces (TLC integers); varint length formula transcribed from postcard"],
    "models": [
        REPLICA_Q,
        {"name": "heads-encode", "module": "MCHeads", "init": "Init", "next": "Next", "workers": 4,
         "consts": {"EncodeKeyedByAuthor": "TRUE"}, "invariants": ["MechSatisfiesSpec", "NewsLaw"]},
    ],
    "sensitivity": [
        {"base": "replica-quick", "flip": {"HeadMonotone": "FALSE"}},
        {"base": "replica-quick", "flip": {"RemoveClearsHeads": "FALSE"}},
        {"base": "heads-encode", "flip": {"EncodeKeyedByAuthor": "FALSE"}},
    ],
    "drives": [
        {"name": "replica-c13", "cmd": "replica", "args": {"profile": "all", "n": {"quick": 250, "thorough": 5000}},
         "trace_module": "ReplicaTrace", "trace_consts": dict(RANGER, Prop='"C13"')},
        {"name": "heads", "cmd": "heads", "args": {"n": {"quick": 300, "thorough": 6000}},
         "trace_module": "HeadsTrace", "trace_consts": {"EncodeKeyedByAuthor": "TRUE"}},
    ],
}

# ------------------------------------------------------------------------------------------ C12
PROPS["C12"] = {
    "level": "model_checking",
    "rule": "model: all interleavings (<= 5 steps) of offers (valid, superseded, invalid; local and remote) with 2 "
            "subscribers joining, unsubscribing or dropping their receiver; implementation: seeded histories with "
            "subscribe / unsubscribe / drop-receiver / policy changes and both ingress paths, events drained after every step",
    "assumptions": ["subscriber channels are unbounded in the harness (a full bounded channel blocks by design)",
                    "on reconciliation messages the expected event sequence is judged only when the store itself followed "
                    "the specification on that step (modular: admission defects are C02's to report)"],
    "models": [
        {"name": "events", "module": "MCEvents", "workers": 6,
         "consts": dict(ENTRY, Universe="<- UEv", Slots="{1, 2}", MaxSteps=5, AnnounceOnlyApplied="TRUE",
                        UnsubExact="TRUE", ThePolicy="<- Pol"),
         "invariants": ["ExactlyOnePerApplied"]},
    ],
    "sensitivity": [
        {"base": "events", "flip": {"AnnounceOnlyApplied": "FALSE"}},
        {"base": "events", "flip": {"UnsubExact": "FALSE"}},
    ],
    "drives": [
        {"name": "replica-c12", "cmd": "replica", "args": {"profile": "all", "n": {"quick": 250, "thorough": 5000}},
         "trace_module": "ReplicaTrace", "trace_consts": dict(RANGER, Prop='"C12"')},
    ],
}

# ------------------------------------------------------------------------------------------ C03
PROPS["C03"] = {
    "level": "model_checking",
    "rule": "model: every store of <= 2 entries x every message of <= 2 (quick) / 3 (thorough) values with all "
            "combinations of namespace / signature validity, malformed emptiness and timestamps at and beyond the future "
            "bound, split over 1-2 item parts; implementation: entries forged at byte level through serde (11 tamper "
            "classes + malformed emptiness + future bound), offered through both ingress paths mixed with valid entries",
    "assumptions": ["ed25519 unforgeability is trusted: ground truth (nsok, sigok) of a forged entry is known by construction",
                    "the future bound is exercised with a pinned clock (hook H2)"],
    "models": [
        {"name": "accept-quick", "module": "MCAccept", "init": "Init", "next": "Next", "workers": 6,
         "consts": dict(RANGER, Contents="<- CQuick", MaxVals=2),
         "invariants": ["OnlyAcceptableStored", "AsIfAbsent", "RejectedChangesNothing"], "tiers": ("quick",)},
        {"name": "accept-thorough", "module": "MCAccept", "init": "Init", "next": "Next", "workers": 12, "timeout": 3000,
         "consts": dict(RANGER, Contents="<- CThorough", MaxVals=3),
         "invariants": ["OnlyAcceptableStored", "AsIfAbsent", "RejectedChangesNothing"], "tiers": ("thorough",)},
    ],
    "sensitivity": [
        {"base": "accept-quick", "flip": {"ValidateEmptyInSync": "FALSE"}, "tiers": ("quick",)},
    ],
    "drives": [
        {"name": "replica-c03", "cmd": "replica", "args": {"profile": "c03", "n": {"quick": 300, "thorough": 6000}},
         "trace_module": "ReplicaTrace", "trace_consts": dict(RANGER, Prop='"C03"')},
    ],
}

# ------------------------------------------------------------------------------------------ C01 / C08
SESSION_CONSTS = dict(RANGER, MaxInit=2, MaxRounds=12, Shards=1, Shard=0)
SESSION_INV = ["Terminates", "Converges", "Mirror", "SecondIsQuiet", "Normal", "NoDebugAssert", "CarriedWereHeld", "NoForeign"]
SESSION_SMALL = {"name": "session-small", "module": "MCSession", "workers": 6,
                 "consts": dict(SESSION_CONSTS, Universe="<- USmall", Configs="<- Cfg21"), "invariants": SESSION_INV}
SESSION_MODELS = [
    {"name": "session-quick", "module": "MCSession", "workers": 10, "timeout": 1200,
     "consts": dict(SESSION_CONSTS, Universe="<- U1", Configs="<- Cfg21"), "invariants": SESSION_INV, "tiers": ("quick",)},
    {"name": "session-configs", "module": "MCSession", "workers": 14, "timeout": 3000,
     "consts": dict(SESSION_CONSTS, Universe="<- U1", Configs="<- CfgAll"), "invariants": SESSION_INV, "tiers": ("thorough",)},
    {"name": "session-two-authors", "module": "MCSession", "workers": 14, "timeout": 3000,
     "consts": dict(SESSION_CONSTS, Universe="<- U2", Configs="<- Cfg21"), "invariants": SESSION_INV, "tiers": ("thorough",)},
    {"name": "session-wide", "module": "MCSession", "workers": 14, "timeout": 3000,
     "consts": dict(SESSION_CONSTS, Universe="<- U4", Configs="<- CfgW", MaxInit=8, MaxRounds=40), "invariants": SESSION_INV,
     "tiers": ("thorough",)},
]
PROPS["C01"] = {
    "level": "model_checking",
    "rule": "model: every pair of normalized stores of <= 2 entries per side over a 24-entry universe (empty key, 0xFF-edged, "
            "prefix pairs, markers, value ties), complete first and second session; thorough adds 5 configs, two authors, and "
            "stores up to 8 entries x 6 configs; implementation: seeded store pairs (<= 14 entries/side, 3 authors, 10 "
            "split/max-set configs, memory and file backends), the full transcript validated message by message",
    "assumptions": ["fingerprint collision-freedom (BLAKE3/XOR) is assumed; observed fingerprints must be an injective "
                    "function of the range contents across each run",
                    "initiator is side A; both orders of every random pair are equally likely by symmetry of generation"],
    "models": [SESSION_SMALL] + SESSION_MODELS,
    "sensitivity": [
        {"base": "session-small", "flip": {"ParentsSeeMarkers": "FALSE"}},
        {"base": "session-small", "flip": {"PrefixBoundCarry": "FALSE"}},
    ],
    "drives": [
        {"name": "session", "cmd": "session", "args": {"n": {"quick": 400, "thorough": 12000}},
         "trace_module": "SessionTrace", "trace_consts": dict(RANGER, Prop='"C01"', RoundBound=40), "tv_timeout": 3000},
    ],
}
PROPS["C08"] = {
    "level": "model_checking",
    "rule": "Ranger.tla is the reference ordered map; model: the C01 session model exercises it; implementation: every "
            "process_message step of real sessions (memory and file) must equal Ranger.Process on the logged pre-state, plus "
            "a primitive sweep of hand-built one/two-part messages (impossible / empty fingerprints, item requests) over "
            "arbitrary ranges x<y, x>y, x=y incl. foreign-namespace endpoints and 6 configs",
    "assumptions": ["fingerprint collision-freedom assumed; injectivity of observed fingerprints checked per run"],
    "models": [SESSION_MODELS[0], dict(SESSION_MODELS[1])],
    "drives": [
        {"name": "session", "cmd": "session", "args": {"n": {"quick": 300, "thorough": 8000}},
         "trace_module": "SessionTrace", "trace_consts": dict(RANGER, Prop='"C08"', RoundBound=40), "tv_timeout": 3000},
        {"name": "sweep", "cmd": "replica", "args": {"profile": "c08", "n": {"quick": 300, "thorough": 5000}},
         "trace_module": "ReplicaTrace", "trace_consts": dict(RANGER, Prop='"C08"'), "tv_timeout": 3000},
    ],
}
