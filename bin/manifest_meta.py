"""Texts for MANIFEST.json (kept apart from the pipeline definitions)."""
HOOK_COMMITS = ["3661f25", "52743f0"]
NOTES = ("All checks: exit 0 = held on everything explored, exit 1 + 'VIOLATION property=<id> replay=<dir>', exit 2 = tool error. "
         "known-findings.json lists genuine defects (fixed or known); see DESIGN.md §6 and §10.")
TB = "Trusted: TLC + CommunityModules; the harness projection (ids -> byte-order ranks); ed25519/BLAKE3; redb's own ordering and recovery."
META = {
 "C02": {"technique": "TLC model checking of Replica.tla + TLC trace validation of real-store histories (ReplicaTrace.tla)",
         "text": "TLC exhausts every reachable (offered set, store) of the replica model over a universe with empty, 0xFF-edged and prefix-related keys, markers and value ties, checking store = Kept(offered) and the per-insert pruning obligations; three sensitivity configurations must fail. The real redb store (memory and file) is then driven with seeded histories and every step (result, removed count, full contents) is validated by TLC against the same operators.",
         "note": TB + " Bounded: model universe <= 36 entries, <= 3 offered; implementation histories are sampled, not exhaustive."},
 "C03": {"technique": "TLC model checking of AcceptModel.tla (message shapes x validity classes) + TLC trace validation of byte-level forgeries on both ingress paths (ReplicaTrace.tla, Prop=C03)",
         "text": "TLC enumerates every small store x every message of values with all validity-flag combinations and checks that only acceptable entries are stored/announced and the rest is processed as if the bad ones were absent (sensitivity: dropping the emptiness check on the sync path must fail). The real code is offered entries forged through serde (11 tamper classes, malformed emptiness, future bound +/-1us) via insert_remote_entry and inside reconciliation messages; TLC validates result, store, events, and that every stored entry verifies.",
         "note": TB + " Cryptography itself is trusted, not modelled; ground truth of a forged entry is known by construction."},
 "C12": {"technique": "TLC model checking of Events.tla + TLC trace validation of subscriber event streams (ReplicaTrace.tla, Prop=C12)",
         "text": "TLC explores all interleavings of offers with subscribers joining, unsubscribing and dropping receivers and checks each subscriber saw exactly the applied entries while subscribed (two sensitivity configs must fail). On the real replica every subscriber channel is drained after each step and TLC compares the exact event sequence (origin, peer, content status, download flag from the policy).",
         "note": TB + " Unbounded subscriber channels in the harness; reconciliation-message steps judged only where the store conformed."},
 "C13": {"technique": "TLC model checking of Replica.tla (HeadsExact) and Heads.tla (encode/news) + TLC trace validation (ReplicaTrace.tla Prop=C13, HeadsTrace.tla)",
         "text": "TLC checks heads = newest timestamp held over every reachable replica history incl. removal/re-creation, and that the encode mechanism satisfies the stated encode contract for all head sets of <= 4 authors x varint-boundary timestamps x boundary limits (three sensitivity configs must fail). Real code: heads and has_news_for_us after every step of seeded histories; AuthorHeads::encode/decode under ~9 limits per head set with exact encoded length.",
         "note": TB + " Limits >= 1; timestamps < 2^31 in traces."},
 "C01": {"technique": "TLC model checking of Session.tla (Ranger.tla transcription of process_message) + TLC trace validation of complete real sessions (SessionTrace.tla, Prop=C01)",
         "text": "TLC runs every pair of small normalized stores through a complete first and second session of the transcribed algorithm and checks termination bound, convergence to Kept(A0 u B0), mirrored counts, quiet second session and the code's own debug assertion (two sensitivity configs must fail). Real stores (memory/file, 10 configs via hook H3) then run sessions message by message; TLC validates every message, both stores after every step and the end-of-session obligations.",
         "note": TB + " Fingerprint collision-freedom assumed (injectivity of observed fingerprints is checked). Model bounded to <= 2 entries per side (quick) / 8 (thorough)."},
 "C08": {"technique": "Ranger.tla as reference ordered map; TLC trace validation of every real process_message step and of a primitive range sweep (SessionTrace.tla / ReplicaTrace.tla, Prop=C08)",
         "text": "The specification's Ranger module is the plain-ordered-map reference (range scans in all three orderings, first key, fingerprints, prefix lookup/removal, pivots). Every process_message call of real sessions on the memory and the file-backed redb store, plus hand-built probe messages over arbitrary ranges (x<y, wrap-around, x=y, foreign endpoints) under 6 configs, must produce exactly the reply and post-state the reference prescribes; equality of the two backends follows from both equalling the reference.",
         "note": TB + " Fingerprints compared up to an injectivity map."},
 "C05": {"technique": "Query.tla evaluated by TLC as the reference for every real query answer (QueryTrace.tla) + TLC model checking of the two physical access paths (QueryIndex.tla)",
         "text": "TLC checks over every reachable (records, by-key index with stale ids) that the index path and the records-scan path both equal the Query.tla definition (two sensitivity configs must fail). Real store states built by pruning histories are then queried with the full product of the 8 query dimensions and every point lookup; TLC evaluates Query!ResultOk on each logged answer (sequence equality; ties and the documented/implemented filter-order ambiguity of latest-per-key are left free).",
         "note": TB + " Query sample beyond the first states is seeded, not exhaustive."},
 "C07": {"technique": "TLC model checking of Docs.tla (CapMonotone, OthersUntouched) + TLC trace validation of multi-document histories (DocsTrace.tla, Prop=C07)",
         "text": "TLC explores all short histories of capability imports, open/close, local/remote writes, removal and reopen over byte-neighbour documents: a write capability is never lost, imports touch only their document (sensitivity: downgrade on re-import must fail). On the real store TLC validates capability kinds, ReadOnly refusals and accepted remote entries after every step for all 7 documents.",
         "note": TB},
 "C15": {"technique": "TLC model checking of Docs.tla + Policy.tla as reference for matches()/filters; TLC trace validation (DocsTrace.tla Prop=C15; download flag under ReplicaTrace Prop=C12)",
         "text": "Policies per document across set/get/removal/reopen are validated against the model's expected value (set only on existing documents, default otherwise); DownloadPolicy::matches and the Display/FromStr round trip of filters (non-UTF-8, empty, ':'-containing) are evaluated against Policy.tla by TLC for every logged call.",
         "note": TB},
 "C16": {"technique": "TLC model checking of Docs.tla (RemovedIsGone, OthersUntouched, NoOrphans with the namespace-range mechanism) + TLC trace validation of all observers of all documents (DocsTrace.tla, Prop=C16)",
         "text": "TLC explores removal/re-creation interleaved with writes and settings over ids <<1,255>>, <<2,0>>, <<255,255>> with the [ns, ns+1) range mechanism (three sensitivity configs must fail). On the real store every observer of 7 neighbouring documents plus the content-hash list is compared after each step: refused while open, removed document unobservable, others unchanged, hashes = hashes of held entries.",
         "note": TB + " Record-level byte-exact neighbours cannot be created (no secret for a chosen id); see DESIGN.md §7."},
 "C17": {"technique": "TLC model checking of Docs.tla peer-list mechanism (all sequences <= 7 over 7 peers, cap 5) + TLC trace validation (DocsTrace.tla, Prop=C17)",
         "text": "The oldest-first multimap mechanism of register_useful_peer is model-checked for bounded length, no duplicates and most-recent-first over all registration sequences; the real store's get_sync_peers is validated against MRU semantics after every registration incl. unknown/removed documents and reopen.",
         "note": TB + " Assumes registrations do not share a nanosecond."},
 "C18": {"technique": "TLC model checking of the rebuild scan in Docs.tla + TLC trace validation of real database files with derived tables deleted (DocsTrace.tla, Prop=C18)",
         "text": "The migration scan (table order, one row per namespace/author) is model-checked to yield exactly the heads of the records (sensitivity: last-row-wins must fail). Real database files get latest-by-author-1 and/or records-by-key-1 deleted with plain redb, are reopened through Store::persistent, and heads / key-ordered queries must equal their definition over the unchanged records; plain reopen must change no observer.",
         "note": TB},
}
NOT_APPLICABLE = {
 "C04": "not yet bound (in progress)",
 "C06": "not yet bound (in progress)",
 "C09": "not yet bound (in progress)", "C10": "not yet bound (in progress)", "C11": "not yet bound (in progress)",
 "C14": "not yet bound (in progress)",
}
