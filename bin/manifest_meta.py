"""Texts for MANIFEST.json (kept apart from the pipeline definitions)."""
HOOK_COMMITS = ["3661f25", "52743f0"]
NOTES = ("All checks: exit 0 = held on everything explored, exit 1 + 'VIOLATION property=<id> replay=<dir>', exit 2 = tool error. "
         "known-findings.json lists genuine defects (fixed or known); see DESIGN.md §6 and §10.")
TB = "Trusted: TLC + CommunityModules; the harness projection (ids -> byte-order ranks); ed25519/BLAKE3; redb's own ordering and recovery."
META = {
 "C02": {"technique": "TLC model checking of Replica.tla + TLC trace validation of real-store histories (ReplicaTrace.tla)",
         "text": "TLC exhausts every reachable (offered set, store) of the replica model over a universe with empty, 0xFF-edged and prefix-related keys, markers and value ties, checking store = Kept(offered) and the per-insert pruning obligations; three sensitivity configurations must fail. The real redb store (memory and file) is then driven with seeded histories and every step (result, removed count, full contents) is validated by TLC against the same operators.",
         "note": TB + " Bounded: model universe <= 36 entries, <= 3 offered; implementation histories are sampled, not exhaustive."},
}
NOT_APPLICABLE = {
 "C01": "not yet bound (in progress): Session.tla model-checks; session driver pending",
 "C03": "not yet bound (in progress)", "C04": "not yet bound (in progress)", "C05": "not yet bound (in progress)",
 "C06": "not yet bound (in progress)", "C07": "not yet bound (in progress)", "C08": "not yet bound (in progress)",
 "C09": "not yet bound (in progress)", "C10": "not yet bound (in progress)", "C11": "not yet bound (in progress)",
 "C12": "not yet bound (in progress)", "C13": "not yet bound (in progress)", "C14": "not yet bound (in progress)",
 "C15": "not yet bound (in progress)", "C16": "not yet bound (in progress)", "C17": "not yet bound (in progress)",
 "C18": "not yet bound (in progress)",
}
