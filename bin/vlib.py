"""Orchestration library for /verif checks: build harness, run TLC (model checking, sensitivity,
trace validation), manage replays, known findings and evidence.  Python 3 stdlib only.

Exit codes of a check: 0 held on everything explored; 1 VIOLATION line printed;
2 tool error / timeout (never reported as a violation)."""
import time, json, os, re, shutil, subprocess, sys, time, hashlib

VERIF = os.path.dirname(os.path.dirname(os.path.abspath(__file__)))
SPEC = os.path.join(VERIF, "spec")
WORK = os.path.join(VERIF, "work")
HARNESS = os.path.join(VERIF, "harness")
EVID = os.path.join(VERIF, "evidence")
VDRIVE = os.path.join(WORK, "target", "debug", "vdrive")
KNOWN = os.path.join(VERIF, "known-findings.json")

DESIGN_CONSTS = {
    "ParentsSeeMarkers": "TRUE", "EmptyKeyIsParent": "TRUE", "PrefixBoundCarry": "TRUE",
    "ValidateEmptyInSync": "TRUE", "MaxShift": "600000000",
}


class ToolError(Exception):
    pass


def log(*a):
    print(*a, flush=True)


def sh(cmd, timeout=None, env=None, cwd=None):
    e = dict(os.environ)
    if env:
        e.update(env)
    p = subprocess.run(cmd, stdout=subprocess.PIPE, stderr=subprocess.STDOUT, text=True,
                       timeout=timeout, env=e, cwd=cwd)
    return p.returncode, p.stdout


def build_harness():
    """Rebuild the harness against /repo's current working tree (cargo fingerprints make it a no-op
    when nothing changed)."""
    t0 = time.time()
    lock = os.path.join(HARNESS, "Cargo.lock")
    if not os.path.exists(lock):
        shutil.copy(os.path.join(os.environ.get("VERIF_REPO", "/repo"), "Cargo.lock"), lock)
    env = {"CARGO_NET_OFFLINE": "true"}
    try:
        rc, out = sh(["cargo", "build", "--offline", "--quiet"], timeout=3600, env=env, cwd=HARNESS)
    except subprocess.TimeoutExpired:
        raise ToolError("cargo build timed out")
    if rc != 0:
        raise ToolError("cargo build of the harness failed (does /repo still compile with --features verif?):\n" + out[-4000:])
    return time.time() - t0


def cfg_text(spec="Spec", consts=None, invariants=(), properties=(), postcondition=None,
             constraint=None, view=None, init=None, next_=None, extra=""):
    lines = []
    if init:
        lines += [f"INIT {init}", f"NEXT {next_}"]
    else:
        lines.append(f"SPECIFICATION {spec}")
    if consts:
        lines.append("CONSTANTS")
        for k, v in consts.items():
            if isinstance(v, str) and v.startswith("<-"):
                lines.append(f" {k} {v}")
            else:
                lines.append(f" {k} = {v}")
    if invariants:
        lines.append("INVARIANTS " + " ".join(invariants))
    if properties:
        lines.append("PROPERTIES " + " ".join(properties))
    if postcondition:
        lines.append(f"POSTCONDITION {postcondition}")
    if constraint:
        lines.append(f"CONSTRAINT {constraint}")
    if view:
        lines.append(f"VIEW {view}")
    lines.append("CHECK_DEADLOCK FALSE")
    if extra:
        lines.append(extra)
    return "\n".join(lines) + "\n"


_run_counter = [0]


def tlc(module, cfg, workers=8, timeout=900, env=None, trace=None, tag="mc", simulate=None,
        coverage=False, heap=None, depth_first=False, seed=None, depth=None):
    """Run TLC on spec/<module>.tla with the given cfg text. Returns dict with output and stats."""
    _run_counter[0] += 1
    d = os.path.join(WORK, "tlc", f"{tag}-{os.getpid()}-{_run_counter[0]}")
    os.makedirs(d, exist_ok=True)
    cfgp = os.path.join(d, "run.cfg")
    with open(cfgp, "w") as f:
        f.write(cfg)
    cmd = ["timeout", str(timeout), "tlc", "-workers", str(workers), "-metadir", os.path.join(d, "meta"),
           "-cleanup", "-noGenerateSpecTE", "-config", cfgp]
    if coverage:
        cmd += ["-coverage", "1"]
    if simulate:
        cmd += ["-simulate", simulate]
    if seed is not None:
        cmd += ["-seed", str(seed)]
    if depth is not None:
        cmd += ["-depth", str(depth)]
    cmd.append(os.path.join(SPEC, module + ".tla"))
    e = {}
    jopts = ["-Xss1g"]
    if heap:
        jopts.append(f"-Xmx{heap}")
    if trace or depth_first:
        jopts.append("-Dtlc2.tool.queue.IStateQueue=StateDeque")
    e["JAVA_TOOL_OPTIONS"] = " ".join(jopts)
    if trace:
        e["TRACE"] = trace
    if env:
        e.update(env)
    t0 = time.time()
    rc, out = sh(cmd, env=e, cwd=d)
    wall = time.time() - t0
    with open(os.path.join(d, "tlc.out"), "w") as f:
        f.write(out)
    res = {"rc": rc, "out": out, "dir": d, "wall": wall, "module": module}
    m = re.search(r"(\d+) states generated, (\d+) distinct states found", out)
    if m:
        res["generated"] = int(m.group(1))
        res["distinct"] = int(m.group(2))
    m = re.search(r"depth of the complete state graph search is (\d+)", out)
    if m:
        res["depth"] = int(m.group(1))
    if rc == 124:
        res["status"] = "timeout"
    elif "Model checking completed. No error has been found." in out or \
            (simulate and rc == 0):
        res["status"] = "ok"
    elif "is violated" in out or "Postcondition" in out and "is false" in out:
        res["status"] = "violation"
        m = re.search(r"Invariant (\S+) is violated", out)
        if m:
            res["violated"] = m.group(1)
        elif re.search(r"Action property (\S+)", out) and "is violated" in out:
            res["violated"] = re.search(r"Action property (\S+)", out).group(1)
        elif "Temporal properties were violated" in out:
            res["violated"] = "temporal"
        elif "Postcondition" in out:
            res["violated"] = "postcondition"
    else:
        res["status"] = "error"
    if res["status"] != "error":
        shutil.rmtree(os.path.join(d, "meta"), ignore_errors=True)
    return res


def parse_rejection(out):
    """From trace-validation output: (line number of first unmatched event, total, event json)"""
    m = re.search(r'<<"REJECTED_AT", (\d+), "OF", (\d+)>>', out)
    if not m:
        return None
    at, total = int(m.group(1)), int(m.group(2))
    ev = None
    m2 = re.search(r'<<"EVENT", "(.*)">>', out)
    if m2:
        try:
            ev = json.loads(json.loads('"' + m2.group(1) + '"'))
        except Exception:
            ev = m2.group(1)[:500]
    return at, total, ev


def split_runs(trace_path):
    """Return list of (start_line_idx, end_line_idx) (0-based, end exclusive) per Reset-delimited run."""
    runs = []
    start = None
    with open(trace_path) as f:
        lines = f.readlines()
    for i, ln in enumerate(lines):
        if '"ev":"Reset"' in ln:
            if start is not None:
                runs.append((start, i))
            start = i
    if start is not None:
        runs.append((start, len(lines)))
    return lines, runs


def validate_trace(trace_path, module, consts, max_rejections=25, timeout=900, tag="tv", spec="Spec", invariants=()):
    """Validate an ndjson trace against spec/<module>.tla.  After a rejection, validation resumes at
    the next Reset line so that the rest of the trace is still examined.
    Returns dict(events, accepted_events, rejections=[{line, run_start, run_end, event, out}])"""
    lines, runs = split_runs(trace_path)
    total = len(lines)
    rejections = []
    offset = 0
    cur = trace_path
    examined = 0
    tmpfiles = []
    wall = 0.0
    while offset < total and len(rejections) <= max_rejections:
        cfg = cfg_text(spec=spec, consts=consts, postcondition="Accepted", invariants=invariants)
        r = tlc(module, cfg, workers=1, timeout=timeout, trace=cur, tag=tag, heap="6g")
        wall += r["wall"]
        if r["status"] == "ok":
            examined += total - offset
            break
        if r["status"] in ("timeout", "error"):
            raise ToolError(f"trace validation {r['status']} for {module} on {cur}: see {r['dir']}/tlc.out\n" + r["out"][-1500:])
        rej = parse_rejection(r["out"])
        if not rej and r.get("violated") not in (None, "postcondition"):
            # an invariant of the specification is violated in a state of the validated trace: the state was
            # reached by consuming line l-1
            ls = re.findall(r"/\\ l = (\d+)", r["out"])
            if ls:
                at = max(int(ls[-1]) - 1, 1)
                rej = (at, total - offset, {"invariant_violated_on_trace": r.get("violated"),
                                            "event": json.loads(lines[offset + at - 1])})
        if not rej:
            raise ToolError(f"trace validation failed without rejection marker: {r['dir']}/tlc.out\n" + r["out"][-1500:])
        at, tot, ev = rej
        gline = offset + at - 1     # 0-based global index of the rejected line
        run = next(((s, e) for (s, e) in runs if s <= gline < e), (gline, gline + 1))
        rejections.append({"line": gline, "run_start": run[0], "run_end": run[1], "event": ev,
                           "tlc_out": os.path.join(r["dir"], "tlc.out")})
        examined += run[1] - offset
        offset = run[1]
        if offset >= total:
            break
        cur = trace_path + f".rest{len(rejections)}"
        with open(cur, "w") as f:
            f.writelines(lines[offset:])
        tmpfiles.append(cur)
    for t in tmpfiles:
        try:
            os.remove(t)
        except OSError:
            pass
    return {"events": total, "examined": examined, "rejections": rejections, "lines": lines, "runs": runs,
            "wall": wall}


def load_known():
    if not os.path.exists(KNOWN):
        return []
    with open(KNOWN) as f:
        return json.load(f).get("findings", [])


def write_evidence(pid, tier, seed, level, coverage, assumptions, wall, violations, extra=None):
    evid = EVID if pid.startswith("C") else EVID + "-extra"    # extensions beyond the listed properties
    os.makedirs(evid, exist_ok=True)
    ev = {"property_id": pid, "tier": tier, "seed": seed, "level": level, "coverage": coverage,
          "assumptions": assumptions, "wall_s": round(wall, 2), "violations": violations}
    if extra:
        ev.update(extra)
    with open(os.path.join(evid, pid + ".json"), "w") as f:
        json.dump(ev, f, indent=1, sort_keys=True)
        f.write("\n")


def save_replay(pid, tier, seed, n, pieces):
    """pieces: dict name -> text. Returns the replay directory."""
    d = os.path.join(WORK, "replays", f"{pid}-{tier}-{seed}-{n}")
    os.makedirs(d, exist_ok=True)
    for name, txt in pieces.items():
        with open(os.path.join(d, name), "w") as f:
            f.write(txt)
    return d


def export_schedules(module, cfg, out_path, simulate=None, seed=None, depth=None, workers=4, timeout=900, limit=None, tag="sched"):
    """Run TLC on a model whose invariant prints <<"SCHED", json>> lines; write the distinct schedules
    (one JSON value per line) to out_path. Returns (count, tlc result)."""
    r = tlc(module, cfg, workers=workers, timeout=timeout, simulate=simulate, seed=seed, depth=depth, tag=tag)
    if r["status"] not in ("ok",):
        raise ToolError(f"schedule export from {module} failed ({r['status']}): {r['dir']}/tlc.out\n" + r["out"][-1500:])
    seen = set()
    n = 0
    with open(out_path, "a") as f:
        for m in re.finditer(r'<<"SCHED", "(.*)">>', r["out"]):
            sline = json.loads('"' + m.group(1) + '"')
            if sline in seen:
                continue
            seen.add(sline)
            f.write(sline + "\n")
            n += 1
            if limit and n >= limit:
                break
    return n, r


def tlapm(module, timeout=900, threads=4):
    """Re-check a TLAPS proof module under spec/proofs.  Returns dict(status ok|failed|error, obligations, wall)."""
    pdir = os.path.join(SPEC, "proofs")
    t0 = time.time()
    try:
        p = subprocess.run(["timeout", str(timeout), "tlapm", "--threads", str(threads), "--stretch", "3", module + ".tla"],
                           cwd=pdir, capture_output=True, text=True)
        out = p.stdout + p.stderr
    except Exception as e:      # noqa
        return {"module": module, "status": "error", "obligations": 0, "wall_s": round(time.time() - t0, 1), "detail": str(e)[:300]}
    m = re.search(r"All (\d+) obligations? proved", out)
    if m:
        return {"module": module, "status": "ok", "obligations": int(m.group(1)), "wall_s": round(time.time() - t0, 1)}
    m2 = re.search(r"(\d+)/(\d+) obligations? failed", out)
    return {"module": module, "status": "failed" if m2 else "error", "obligations": int(m2.group(2)) if m2 else 0,
            "failed": int(m2.group(1)) if m2 else 0, "wall_s": round(time.time() - t0, 1), "detail": out[-600:]}
