//! Codec driver (C09): real protocol frames from real sessions are encoded with the real encoder,
//! concatenated, chunked / truncated / corrupted and fed to the real stream decoder; the other decoders
//! are fed their own encodings (round trip), single-byte corruptions and random bytes. A panic is data.

use iroh_docs::{
    net::verif_codec::{encode_frame, Frame, StreamDecoder, MAX_FRAME},
    sync::{ProtocolMessage, SignedEntry},
    AuthorHeads, Capability, DocTicket,
};
use serde_json::{json, Value};

use crate::{replica::proj_message, session::*, world::*};

fn proj_frame(w: &World, f: &Frame) -> Value {
    match f {
        Frame::Init { namespace, message } => {
            json!({"t":"Init","ns": w.ns_rel(namespace.as_bytes(), &w.nsid()), "m": proj_message(w, message), "reason": ""})
        }
        Frame::Sync(m) => json!({"t":"Sync","ns":0,"m": proj_message(w, m), "reason": ""}),
        Frame::Abort { reason } => json!({"t":"Abort","ns":0,"m":[],"reason": match reason {
            iroh_docs::net::AbortReason::NotFound => "NotFound",
            iroh_docs::net::AbortReason::AlreadySyncing => "AlreadySyncing",
            iroh_docs::net::AbortReason::InternalServerError => "InternalServerError",
        }}),
    }
}

/// Run a real session between two real stores and collect the frames that would go over the wire.
pub async fn collect_frames(w: &World, rng: &mut Rng) -> Vec<Frame> {
    let mut a = Side::new(w, &Backend::Mem);
    let mut b = Side::new(w, &Backend::Mem);
    a.fill(w, &gen_set(rng, 2, 8, 3, 6)).await;
    b.fill(w, &gen_set(rng, 2, 8, 3, 6)).await;
    let mut frames = vec![];
    let first = a.init().unwrap();
    frames.push(Frame::Init { namespace: w.nsid(), message: first.clone() });
    let mut wire = Some(first);
    let mut turn_b = true;
    let mut guard = 0;
    while let Some(m) = wire.take() {
        guard += 1;
        if guard > 40 {
            break;
        }
        let side = if turn_b { &mut b } else { &mut a };
        if let Ok(Some(r)) = side.process(m, w.peers[0]).await {
            frames.push(Frame::Sync(r.clone()));
            wire = Some(r);
        }
        turn_b = !turn_b;
    }
    if rng.chance(1, 4) {
        frames.push(Frame::Abort { reason: iroh_docs::net::AbortReason::AlreadySyncing });
    }
    frames
}

fn drain(w: &World, dec: &mut StreamDecoder, trace: &mut Trace, sum: &mut Summary, log_p: bool) -> bool {
    loop {
        let r = std::panic::catch_unwind(std::panic::AssertUnwindSafe(|| dec.decode()));
        sum.add("decode_calls", 1);
        match r {
            Err(_) => {
                trace.emit(json!({"ev":"Dec","res":"PANIC","p":{}}));
                return false;
            }
            Ok(Ok(None)) => {
                trace.emit(json!({"ev":"Dec","res":"need","p":{}}));
                return true;
            }
            // decoded values of corrupted streams are arbitrary (huge integers, malformed ids): only the outcome is logged
            Ok(Ok(Some(f))) => trace.emit(json!({"ev":"Dec","res":"frame","p": if log_p { proj_frame(w, &f) } else { json!({}) }})),
            Ok(Err(_)) => {
                trace.emit(json!({"ev":"Dec","res":"err","p":{}}));
                return false;
            }
        }
    }
}

pub fn run(w: &World, seed: u64, rng: &mut Rng, n: usize, trace: &mut Trace, sum: &mut Summary) {
    let rt = tokio::runtime::Builder::new_current_thread().enable_all().build().unwrap();
    iroh_docs::verif::set_clock(1000);
    for i in 0..n {
        let frames = rt.block_on(collect_frames(w, rng));
        let enc: Vec<Vec<u8>> = frames.iter().map(|f| encode_frame(f.clone()).unwrap()).collect();
        let stream: Vec<u8> = enc.concat();
        let meta: Vec<Value> = frames.iter().zip(&enc).map(|(f, e)| json!({"len": e.len() - 4, "p": proj_frame(w, f)})).collect();
        let total = stream.len();
        // ---- clean chunkings: every single cut point (short streams) or a stride, plus random multi-cuts
        let stride = (total / 150).max(1);
        let mut cutsets: Vec<Vec<usize>> = (1..total).step_by(stride).map(|c| vec![c]).collect();
        for _ in 0..20 {
            let k = 1 + rng.below(6);
            let mut cs: Vec<usize> = (0..k).map(|_| 1 + rng.below(total.max(2) - 1)).collect();
            cs.sort();
            cs.dedup();
            cutsets.push(cs);
        }
        cutsets.push((1..total.min(40)).collect()); // byte-by-byte at the start
        for cuts in cutsets {
            trace.emit(json!({"ev":"Reset","run":i,"seed":seed,"mode":"clean","frames":meta,"total":total,"bad":0,"ops":[]}));
            sum.add("histories", 1);
            let mut dec = StreamDecoder::default();
            let mut prev = 0;
            let mut alive = true;
            for c in cuts.iter().chain(std::iter::once(&total)) {
                if !alive {
                    break;
                }
                trace.emit(json!({"ev":"Feed","n": c - prev}));
                dec.feed(&stream[prev..*c]);
                prev = *c;
                alive = drain(w, &mut dec, trace, sum, true);
            }
            trace.emit(json!({"ev":"End","buffered": dec.buffered()}));
        }
        // ---- truncation after every k-th byte
        // (plus, for every frame, the cuts inside and right behind its length prefix and one byte before its end)
        let mut cuts: Vec<usize> = (0..total).step_by((total / 60).max(1)).collect();
        let mut off = 0usize;
        for e in enc.iter() {
            for c in [off + 1, off + 2, off + 3, off + 4, off + 5, off + e.len() - 1] {
                if c < total {
                    cuts.push(c);
                }
            }
            off += e.len();
        }
        cuts.sort();
        cuts.dedup();
        for cut in cuts {
            trace.emit(json!({"ev":"Reset","run":i,"seed":seed,"mode":"clean","frames":meta,"total":total,"bad":0,"ops":[]}));
            sum.add("histories", 1);
            let mut dec = StreamDecoder::default();
            trace.emit(json!({"ev":"Feed","n": cut}));
            dec.feed(&stream[..cut]);
            let alive = drain(w, &mut dec, trace, sum, true);
            trace.emit(json!({"ev":"End","buffered": dec.buffered()}));
            if alive {
                // the stream ends here: what the framed reader does next (decode_eof)
                let r = std::panic::catch_unwind(std::panic::AssertUnwindSafe(|| dec.decode_eof()));
                sum.add("decode_calls", 1);
                let res = match r {
                    Err(_) => "PANIC",
                    Ok(Ok(None)) => "none",
                    Ok(Ok(Some(_))) => "frame",
                    Ok(Err(_)) => "err",
                };
                trace.emit(json!({"ev":"Eof","res":res}));
            }
        }
        // ---- one length prefix overwritten with MAX+1
        for (fi, _) in enc.iter().enumerate() {
            let off: usize = enc[..fi].iter().map(|e| e.len()).sum();
            let mut s = stream.clone();
            s[off..off + 4].copy_from_slice(&((MAX_FRAME + 1) as u32).to_be_bytes());
            trace.emit(json!({"ev":"Reset","run":i,"seed":seed,"mode":"oversize","frames":meta,"total":total,"bad":fi + 1,"ops":[]}));
            sum.add("histories", 1);
            let mut dec = StreamDecoder::default();
            trace.emit(json!({"ev":"Feed","n": total}));
            dec.feed(&s);
            drain(w, &mut dec, trace, sum, true);
            trace.emit(json!({"ev":"End","buffered": dec.buffered()}));
        }
        // ---- one length prefix made smaller than the body (the bytes that follow are already buffered): the frame is
        //      truncated for the decoder, which must report an error and must not borrow the following bytes
        for (fi, e) in enc.iter().enumerate() {
            let blen = e.len() - 4;
            if blen < 2 {
                continue;
            }
            for cut in [1usize, 2, blen / 2, blen - 1] {
                if cut == 0 || cut >= blen {
                    continue;
                }
                let off: usize = enc[..fi].iter().map(|e| e.len()).sum();
                let mut s = stream.clone();
                s[off..off + 4].copy_from_slice(&((blen - cut) as u32).to_be_bytes());
                trace.emit(json!({"ev":"Reset","run":i,"seed":seed,"mode":"shortlen","frames":meta,"total":total,"bad":fi + 1,"ops":[]}));
                sum.add("histories", 1);
                let mut dec = StreamDecoder::default();
                trace.emit(json!({"ev":"Feed","n": total}));
                dec.feed(&s);
                drain(w, &mut dec, trace, sum, false);
                trace.emit(json!({"ev":"End","buffered": dec.buffered()}));
            }
        }
        // ---- single-byte corruption of a frame body (length prefix intact)
        for _ in 0..40 {
            let fi = rng.below(enc.len());
            if enc[fi].len() <= 4 {
                continue;
            }
            let off: usize = enc[..fi].iter().map(|e| e.len()).sum();
            let pos = off + 4 + rng.below(enc[fi].len() - 4);
            let mut s = stream.clone();
            s[pos] ^= 1 << rng.below(8);
            trace.emit(json!({"ev":"Reset","run":i,"seed":seed,"mode":"body","frames":meta,"total":total,"bad":fi + 1,"ops":[]}));
            sum.add("histories", 1);
            let mut dec = StreamDecoder::default();
            trace.emit(json!({"ev":"Feed","n": total}));
            dec.feed(&s);
            drain(w, &mut dec, trace, sum, false);
            trace.emit(json!({"ev":"End","buffered": dec.buffered()}));
        }
        // ---- chaos: random bytes / corruption anywhere: only the outcome alphabet is specified
        for j in 0..40 {
            let s: Vec<u8> = if j % 2 == 0 {
                let mut s = stream.clone();
                let pos = rng.below(total);
                s[pos] = rng.below(256) as u8;
                s
            } else {
                (0..rng.below(200)).map(|_| rng.below(256) as u8).collect()
            };
            trace.emit(json!({"ev":"Reset","run":i,"seed":seed,"mode":"chaos","frames":meta,"total":s.len(),"bad":0,"ops":[]}));
            sum.add("histories", 1);
            let mut dec = StreamDecoder::default();
            trace.emit(json!({"ev":"Feed","n": s.len()}));
            dec.feed(&s);
            drain(w, &mut dec, trace, sum, false);
            trace.emit(json!({"ev":"End","buffered": dec.buffered()}));
        }
        // ---- the other decoders: round trip, corruption, random bytes
        other_decoders(w, rng, &frames, trace, sum);
    }
    pinned(trace);
    iroh_docs::verif::set_clock(0);
}

fn fuzz_one<T>(name: &str, bytes: &[u8], f: impl Fn(&[u8]) -> Result<T, String>, trace: &mut Trace, sum: &mut Summary) {
    let r = std::panic::catch_unwind(std::panic::AssertUnwindSafe(|| f(bytes)));
    let res = match r {
        Err(_) => "PANIC",
        Ok(Ok(_)) => "value",
        Ok(Err(_)) => "err",
    };
    trace.emit(json!({"ev":"Fuzz","dec":name,"len":bytes.len(),"res":res}));
    sum.add("fuzz_inputs", 1);
}

fn mutate(rng: &mut Rng, b: &[u8]) -> Vec<u8> {
    let mut v = b.to_vec();
    match rng.below(4) {
        0 if !v.is_empty() => {
            let p = rng.below(v.len());
            v[p] ^= 1 << rng.below(8);
        }
        1 if !v.is_empty() => {
            v.truncate(rng.below(v.len()));
        }
        2 => {
            let n = rng.below(8);
            v.extend((0..n).map(|_| rng.below(256) as u8));
        }
        _ => {
            v = (0..rng.below(120)).map(|_| rng.below(256) as u8).collect();
        }
    }
    v
}

fn other_decoders(w: &World, rng: &mut Rng, frames: &[Frame], trace: &mut Trace, sum: &mut Summary) {
    trace.emit(json!({"ev":"Reset","run":"decoders","mode":"decoders","frames":[],"total":0,"bad":0,"ops":[]}));
    // protocol message + signed entries taken from the real frames
    let mut entries: Vec<SignedEntry> = vec![];
    for f in frames {
        let m = match f {
            Frame::Init { message, .. } => message,
            Frame::Sync(m) => m,
            _ => continue,
        };
        let bytes = postcard::to_stdvec(m).unwrap();
        let back: Result<ProtocolMessage, _> = postcard::from_bytes(&bytes);
        trace.emit(json!({"ev":"RT","dec":"message","same": back.map(|b| &b == m).unwrap_or(false)}));
        for _ in 0..6 {
            fuzz_one("message", &mutate(rng, &bytes), |b| postcard::from_bytes::<ProtocolMessage>(b).map_err(|e| e.to_string()), trace, sum);
        }
        let v = serde_json::to_value(m).unwrap();
        for p in v["parts"].as_array().unwrap() {
            if let Some(it) = p.get("RangeItem") {
                for pair in it["values"].as_array().unwrap() {
                    entries.push(serde_json::from_value(pair[0].clone()).unwrap());
                }
            }
        }
    }
    entries.push(w.signed(1, b"k", 5, 1, 1));
    for e in entries.iter().take(6) {
        let bytes = postcard::to_stdvec(e).unwrap();
        let back: Result<SignedEntry, _> = postcard::from_bytes(&bytes);
        trace.emit(json!({"ev":"RT","dec":"signed_entry","same": back.map(|b| &b == e).unwrap_or(false)}));
        for _ in 0..6 {
            fuzz_one("signed_entry", &mutate(rng, &bytes), |b| postcard::from_bytes::<SignedEntry>(b).map_err(|e| e.to_string()), trace, sum);
        }
    }
    // author heads (no size limit: every author is kept, including authors sharing a head timestamp)
    for round in 0..6 {
        let mut h = AuthorHeads::default();
        let pool = if round % 2 == 0 { 3 } else { 300 };
        for a in 1..=w.authors.len() as i64 {
            if rng.chance(2, 3) {
                h.insert(w.author(a).id(), 1 + rng.below(pool) as u64);
            }
        }
        let bytes = h.encode(None).unwrap();
        trace.emit(json!({"ev":"RT","dec":"heads","same": AuthorHeads::decode(&bytes).map(|b| b == h).unwrap_or(false)}));
        for _ in 0..3 {
            fuzz_one("heads", &mutate(rng, &bytes), |b| AuthorHeads::decode(b).map_err(|e| e.to_string()), trace, sum);
        }
    }
    // capability: the world's own, plus read capabilities for ARBITRARY 32-byte ids (every byte string is a document id - a
    // read-only import does not ask for a curve point) and write capabilities of fresh secrets
    let mut caps = vec![Capability::Write(w.ns.clone()), Capability::Read(w.nsid())];
    for i in 0..6u8 {
        let mut id = [0u8; 32];
        for b in id.iter_mut() {
            *b = rng.below(256) as u8;
        }
        if i == 0 {
            id = [2u8; 32];
        }
        if i == 1 {
            id = [0xFF; 32];
        }
        caps.push(Capability::Read(iroh_docs::NamespaceId::from(&id)));
        caps.push(Capability::Write(iroh_docs::NamespaceSecret::from_bytes(&id)));
    }
    for cap in caps {
        let bytes = postcard::to_stdvec(&cap).unwrap();
        let back: Result<Capability, _> = postcard::from_bytes(&bytes);
        trace.emit(json!({"ev":"RT","dec":"capability","same": back.map(|b| b.raw() == cap.raw()).unwrap_or(false)}));
        for _ in 0..6 {
            fuzz_one("capability", &mutate(rng, &bytes), |b| postcard::from_bytes::<Capability>(b).map_err(|e| e.to_string()), trace, sum);
        }
        let (k, raw) = cap.raw();
        let back = Capability::from_raw(k, &raw);
        trace.emit(json!({"ev":"RT","dec":"capability_raw","same": back.map(|b| b.raw() == cap.raw()).unwrap_or(false)}));
        fuzz_one("capability_raw", &[rng.below(256) as u8], |b| Capability::from_raw(b[0], &raw).map_err(|e| e.to_string()), trace, sum);
    }
    // tickets (at least one node)
    let node = iroh::EndpointAddr::new(iroh::SecretKey::from_bytes(&w.peers[0]).public());
    for cap in [Capability::Write(w.ns.clone()), Capability::Read(w.nsid())] {
        let t = DocTicket::new(cap, vec![node.clone()]);
        let text = t.to_string();
        let back: Result<DocTicket, _> = text.parse();
        trace.emit(json!({"ev":"RT","dec":"ticket","same": back.map(|b| b.to_string() == text).unwrap_or(false)}));
        for _ in 0..8 {
            let mutated = String::from_utf8_lossy(&mutate(rng, text.as_bytes())).to_string();
            fuzz_one("ticket", mutated.as_bytes(), |b| std::str::from_utf8(b).map_err(|e| e.to_string())
                .and_then(|s| s.parse::<DocTicket>().map_err(|e| e.to_string())), trace, sum);
        }
    }
    // keys (src/keys.rs): byte and text forms of secrets and ids give the same key back; ids take any 32 bytes
    for i in 0..12u8 {
        let mut b = [0u8; 32];
        for x in b.iter_mut() {
            *x = rng.below(256) as u8;
        }
        if i == 0 {
            b = [0u8; 32];
        }
        if i == 1 {
            b = [0xFF; 32];
        }
        let author = iroh_docs::Author::from_bytes(&b);
        let nss = iroh_docs::NamespaceSecret::from_bytes(&b);
        let same_a = iroh_docs::Author::from_bytes(&author.to_bytes()).id() == author.id()
            && author.to_string().parse::<iroh_docs::Author>().map(|x| x.to_bytes() == author.to_bytes()).unwrap_or(false);
        let same_n = iroh_docs::NamespaceSecret::from_bytes(&nss.to_bytes()).id() == nss.id()
            && nss.to_string().parse::<iroh_docs::NamespaceSecret>().map(|x| x.to_bytes() == nss.to_bytes()).unwrap_or(false);
        trace.emit(json!({"ev":"RT","dec":"author_secret","same": same_a}));
        trace.emit(json!({"ev":"RT","dec":"namespace_secret","same": same_n}));
        // ids of real keys: bytes and text give the id back
        for raw in [author.id().to_bytes(), nss.id().to_bytes()] {
            let aid = iroh_docs::AuthorId::from(&raw);
            let nid = iroh_docs::NamespaceId::from(&raw);
            let ok_a = aid.to_bytes() == raw && aid.to_string().parse::<iroh_docs::AuthorId>().map(|x| x == aid).unwrap_or(false);
            let ok_n = nid.to_bytes() == raw && nid.to_string().parse::<iroh_docs::NamespaceId>().map(|x| x == nid).unwrap_or(false);
            trace.emit(json!({"ev":"RT","dec":"author_id","same": ok_a}));
            trace.emit(json!({"ev":"RT","dec":"namespace_id","same": ok_n}));
            sum.add("decode_calls", 2);
        }
        // ids of arbitrary bytes keep their bytes; their text form is parsed as a public key, which need not accept them
        // (only "a value or an error" is asked of it)
        {
            let aid = iroh_docs::AuthorId::from(&b);
            let nid = iroh_docs::NamespaceId::from(&b);
            trace.emit(json!({"ev":"RT","dec":"author_id_bytes","same": aid.to_bytes() == b}));
            trace.emit(json!({"ev":"RT","dec":"namespace_id_bytes","same": nid.to_bytes() == b}));
            let t = aid.to_string();
            fuzz_one("author_id_text", t.as_bytes(), |t| std::str::from_utf8(t).map_err(|e| e.to_string())
                .and_then(|s| s.parse::<iroh_docs::AuthorId>().map(|_| ()).map_err(|e| e.to_string())), trace, sum);
            fuzz_one("namespace_id_text", t.as_bytes(), |t| std::str::from_utf8(t).map_err(|e| e.to_string())
                .and_then(|s| s.parse::<iroh_docs::NamespaceId>().map(|_| ()).map_err(|e| e.to_string())), trace, sum);
        }
        // and arbitrary text never panics the id parsers
        let junk: String = (0..rng.below(70)).map(|_| *rng.pick(&['a', 'b', '2', '7', 'z', '0', 'f', '=', ' ', 'Q'])).collect();
        fuzz_one("author_id_text", junk.as_bytes(), |t| std::str::from_utf8(t).map_err(|e| e.to_string())
            .and_then(|s| s.parse::<iroh_docs::AuthorId>().map(|_| ()).map_err(|e| e.to_string())), trace, sum);
        fuzz_one("namespace_id_text", junk.as_bytes(), |t| std::str::from_utf8(t).map_err(|e| e.to_string())
            .and_then(|s| s.parse::<iroh_docs::NamespaceId>().map(|_| ()).map_err(|e| e.to_string())), trace, sum);
    }
    // text decoders and text that is not ASCII: tokens of every length 0..40 made of 1-, 2-, 3- and 4-byte characters (so that
    // any byte offset a parser might cut at falls inside a character somewhere), joined by 0..4 colons, with the words a
    // parser knows mixed in at every position - fed to every text parser of the crate
    const CHARS: &[&str] = &["a", "Z", "7", "=", " ", "\u{e9}", "\u{df}", "\u{20ac}", "\u{fffd}", "\u{1d11e}", "\u{1f980}"];
    const WORDS: &[&str] = &["prefix", "exact", "utf8", "hex", "00ff", "doc", ""];
    for round in 0..160usize {
        let parts = 1 + rng.below(5);
        let mut toks: Vec<String> = vec![];
        for _ in 0..parts {
            if rng.chance(1, 3) {
                toks.push((*rng.pick(WORDS)).to_string());
            } else {
                // a run of single-byte characters of every length 0..24 in turn, then wider ones: some character straddles
                // each small byte offset in some round
                let lead = (round + rng.below(3)) % 25;
                let mut t: String = "a".repeat(lead);
                for _ in 0..rng.below(12) {
                    t.push_str(*rng.pick(CHARS));
                }
                toks.push(t);
            }
        }
        let text = toks.join(":");
        fuzz_one("filter", text.as_bytes(), |b| std::str::from_utf8(b).map_err(|e| e.to_string())
            .and_then(|s| s.parse::<iroh_docs::store::FilterKind>().map_err(|e| e.to_string())), trace, sum);
        fuzz_one("ticket", text.as_bytes(), |b| std::str::from_utf8(b).map_err(|e| e.to_string())
            .and_then(|s| s.parse::<DocTicket>().map_err(|e| e.to_string())), trace, sum);
        fuzz_one("author_id_text", text.as_bytes(), |t| std::str::from_utf8(t).map_err(|e| e.to_string())
            .and_then(|s| s.parse::<iroh_docs::AuthorId>().map(|_| ()).map_err(|e| e.to_string())), trace, sum);
        fuzz_one("namespace_id_text", text.as_bytes(), |t| std::str::from_utf8(t).map_err(|e| e.to_string())
            .and_then(|s| s.parse::<iroh_docs::NamespaceId>().map(|_| ()).map_err(|e| e.to_string())), trace, sum);
        fuzz_one("author_secret_text", text.as_bytes(), |t| std::str::from_utf8(t).map_err(|e| e.to_string())
            .and_then(|s| s.parse::<iroh_docs::Author>().map(|_| ()).map_err(|e| e.to_string())), trace, sum);
        fuzz_one("namespace_secret_text", text.as_bytes(), |t| std::str::from_utf8(t).map_err(|e| e.to_string())
            .and_then(|s| s.parse::<iroh_docs::NamespaceSecret>().map(|_| ()).map_err(|e| e.to_string())), trace, sum);
    }
    // filters survive their textual form (Display then FromStr): plain, empty, non-UTF-8, ':'-containing bytes and valid UTF-8
    // that a printer might be tempted to escape (backslashes, quotes, control characters, DEL, NUL)
    {
        use iroh_docs::store::FilterKind;
        let samples: Vec<Vec<u8>> = vec![vec![], b"a".to_vec(), b"a:b".to_vec(), b"utf8:x".to_vec(), b"hex:00".to_vec(), vec![0xff, 0xfe], vec![0xc3, 0x28],
            "\u{e9}t\u{e9}".as_bytes().to_vec(), b"assets\\img\\".to_vec(), b"it's".to_vec(), b"say \"hi\"".to_vec(), b"line\nbreak\ttab".to_vec(),
            vec![0], vec![b'a', 0x7f, b'b'], b"\\x41\\u{e9}".to_vec(), b"{}%\r".to_vec()];
        for (i, b) in samples.iter().enumerate() {
            for extra in 0..3 {
                let mut bytes = b.clone();
                for _ in 0..extra {
                    bytes.push(*rng.pick(&[b'\\', b'\'', b'"', b'\n', 0u8, b'z', 0x1b, 0x80, b':']));
                }
                let f = if (i + extra) % 2 == 0 { FilterKind::Prefix(bytes.clone().into()) } else { FilterKind::Exact(bytes.clone().into()) };
                let same = std::panic::catch_unwind(std::panic::AssertUnwindSafe(|| f.to_string().parse::<FilterKind>().map(|g| g == f).unwrap_or(false)));
                trace.emit(json!({"ev":"RT","dec":"filter","same": same.unwrap_or(false)}));
                sum.add("decode_calls", 1);
            }
        }
    }
    // filter strings
    for s in ["prefix:utf8:abc", "exact:hex:00ff", "prefix:hex:zz", "nope", "exact:utf8:", "exact::", ":::", "prefix:hex:0"] {
        for _ in 0..3 {
            let m = String::from_utf8_lossy(&mutate(rng, s.as_bytes())).to_string();
            fuzz_one("filter", m.as_bytes(), |b| std::str::from_utf8(b).map_err(|e| e.to_string())
                .and_then(|s| s.parse::<iroh_docs::store::FilterKind>().map_err(|e| e.to_string())), trace, sum);
        }
    }
}

/// Pinned byte encodings (the same constructions as the repository's snapshot tests).
fn pinned(trace: &mut Trace) {
    use iroh_docs::{sync::{Entry, Record, RecordIdentifier}, Author, NamespaceSecret};
    trace.emit(json!({"ev":"Reset","run":"pinned","mode":"decoders","frames":[],"total":0,"bad":0,"ops":[]}));
    let author = Author::from_bytes(&[0xa1; 32]);
    let namespace = NamespaceSecret::from_bytes(&[0xb2; 32]);
    let record = Record::new(iroh_blobs::Hash::EMPTY, 0, 1_700_000_000_000_000u64);
    let id = RecordIdentifier::new(namespace.id(), author.id(), b"wire-format-test");
    let signed = SignedEntry::from_entry(Entry::new(id, record), &namespace, &author);
    trace.emit(json!({"ev":"Pinned","what":"signed_entry","hex":hex::encode(postcard::to_stdvec(&signed).unwrap())}));
    trace.emit(json!({"ev":"Pinned","what":"author","hex":hex::encode(postcard::to_stdvec(&author).unwrap())}));
    trace.emit(json!({"ev":"Pinned","what":"namespace_secret","hex":hex::encode(postcard::to_stdvec(&namespace).unwrap())}));
    trace.emit(json!({"ev":"Pinned","what":"author_id","hex":hex::encode(author.id().to_bytes())}));
    trace.emit(json!({"ev":"Pinned","what":"namespace_id","hex":hex::encode(namespace.id().to_bytes())}));
}
