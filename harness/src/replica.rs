//! Replica history driver: executes histories of local inserts, prefix deletions, remote inserts,
//! hand-built reconciliation messages, subscriber joins/leaves, policy changes, document removal and
//! store reopen against the real store, and logs result + projected state after every step.
//! Serves the trace specifications of C02, C03, C12, C13 (store part) and C15 (download flag).

use std::path::Path;

use iroh_docs::{
    store::{DownloadPolicy, FilterKind, Store},
    sync::{Event, ProtocolMessage, SignedEntry, SyncOutcome},
    Capability, ContentStatus, ReplicaInfo,
};
use serde_json::{json, Value};

use crate::world::*;

pub const NSUB: usize = 2;

struct Sub {
    tx: async_channel::Sender<Event>,
    rx: Option<async_channel::Receiver<Event>>,
}

pub struct Run<'w> {
    pub w: &'w World,
    pub backend: Backend,
    pub store: Option<Store>,
    pub info: Option<ReplicaInfo>,
    subs: Vec<Option<Sub>>,
}

/// Find 32 bytes that are not a valid ed25519 public key.
pub fn non_curve_point() -> [u8; 32] {
    let mut b = [0u8; 32];
    for i in 2u8..255 {
        b[0] = i;
        b[31] = 0x7f;
        if iroh::PublicKey::from_bytes(&b).is_err() {
            return b;
        }
    }
    panic!("no non-curve point found");
}

/// Forge an entry of class `cls` whose *projected content* is (a,k,ts,h,len).
/// Returns the entry and the ground truth (nsok, sigok) known by construction.
pub fn forge(
    w: &World,
    cls: &str,
    a: i64,
    k: &[u8],
    ts: u64,
    h: i64,
    len: u64,
) -> (SignedEntry, bool, bool) {
    use iroh_docs::sync::{Entry, RecordIdentifier};
    let rec = || w.record(h, len, ts);
    match cls {
        "ok" => (w.signed(a, k, ts, h, len), true, true),
        "badns_sig" => {
            let id = RecordIdentifier::new(w.ns.id(), w.author(a).id(), k);
            (Entry::new(id, rec()).sign(&w.stranger_ns, w.author(a)), true, false)
        }
        "badauth_sig" => {
            let id = RecordIdentifier::new(w.ns.id(), w.author(a).id(), k);
            (Entry::new(id, rec()).sign(&w.ns, &w.stranger), true, false)
        }
        "swapped" => {
            let e = w.signed(a, k, ts, h, len);
            let mut v = serde_json::to_value(&e).unwrap();
            let s = v["signature"].clone();
            v["signature"]["author_signature"] = s["namespace_signature"].clone();
            v["signature"]["namespace_signature"] = s["author_signature"].clone();
            (serde_json::from_value(v).unwrap(), true, false)
        }
        "othersig" => {
            let e = w.signed(a, k, ts, h, len);
            let other = w.signed(a, k, ts + 1, h, len);
            let mut v = serde_json::to_value(&e).unwrap();
            v["signature"] = serde_json::to_value(&other).unwrap()["signature"].clone();
            (serde_json::from_value(v).unwrap(), true, false)
        }
        "foreign_ns" => (w.signed_in(&w.other_ns[0], a, k, ts, h, len), false, true),
        "foreign_ns_oursig" => {
            // the identifier names another document, the namespace signature was made with THIS document's secret
            // (any writer of this document can produce it), the author signature is genuine
            let id = RecordIdentifier::new(w.other_ns[0].id(), w.author(a).id(), k);
            (Entry::new(id, rec()).sign(&w.ns, w.author(a)), false, false)
        }
        "noncurve_author" => {
            let id = RecordIdentifier::new(w.ns.id(), non_curve_point(), k);
            (Entry::new(id, rec()).sign(&w.ns, w.author(a)), true, false)
        }
        "weak_author" => {
            // the author id is a point of small order (the identity 0100..00, or ecff..ff7f of order 2) and the author signature
            // is the constant (R = identity, S = 0), which satisfies the plain verification equation for such keys whatever the
            // content; strict verification (what the crate's key type does) refuses keys of small order. The namespace
            // signature is genuine.
            let mut weak = [0u8; 32];
            if ts % 2 == 0 {
                weak[0] = 1;
            } else {
                weak = [0xff; 32];
                weak[0] = 0xec;
                weak[31] = 0x7f;
            }
            let id = RecordIdentifier::new(w.ns.id(), weak, k);
            let e = Entry::new(id, rec()).sign(&w.ns, w.author(a));
            let mut v = serde_json::to_value(&e).unwrap();
            let mut sig = vec![0u8; 64];
            sig[0] = 1;
            v["signature"]["author_signature"] = json!(sig);
            (serde_json::from_value(v).unwrap(), true, false)
        }
        "flip_ts" | "flip_len" | "flip_hash" | "flip_key" | "flip_sig" => {
            // sign slightly different content, then overwrite one field so that the final content
            // is the requested one but the signatures cover something else
            let (ts0, len0, h0, k0) = match cls {
                "flip_ts" => (ts + 1, len, h, k.to_vec()),
                "flip_len" => (ts, len + 1, h, k.to_vec()),
                "flip_hash" => (ts, len, if h == 1 { 2 } else { 1 }, k.to_vec()),
                "flip_key" => {
                    let mut k0 = k.to_vec();
                    k0.push(9);
                    (ts, len, h, k0)
                }
                _ => (ts, len, h, k.to_vec()),
            };
            let signed0 = w.signed(a, &k0, ts0, h0, len0.max(if h0 == 0 { 0 } else { 1 }));
            let want = w.signed(a, k, ts, h, len);
            let mut v = serde_json::to_value(&want).unwrap();
            let mut sig = serde_json::to_value(&signed0).unwrap()["signature"].clone();
            if cls == "flip_sig" {
                // flip one bit in the author signature of the right content
                sig = v["signature"].clone();
                let b = sig["author_signature"][3].as_u64().unwrap();
                sig["author_signature"][3] = json!(b ^ 1);
            }
            v["signature"] = sig;
            (serde_json::from_value(v).unwrap(), true, false)
        }
        other => panic!("unknown entry class {other}"),
    }
}

fn policy_of(v: &Value) -> DownloadPolicy {
    let filters: Vec<FilterKind> = v["filters"]
        .as_array()
        .map(|fs| {
            fs.iter()
                .map(|f| {
                    let bytes: Vec<u8> = f[1]
                        .as_array()
                        .unwrap()
                        .iter()
                        .map(|b| b.as_u64().unwrap() as u8)
                        .collect();
                    if f[0] == "prefix" {
                        FilterKind::Prefix(bytes.into())
                    } else {
                        FilterKind::Exact(bytes.into())
                    }
                })
                .collect()
        })
        .unwrap_or_default();
    if v["kind"] == "only" {
        DownloadPolicy::NothingExcept(filters)
    } else {
        DownloadPolicy::EverythingExcept(filters)
    }
}

pub fn key_of(v: &Value) -> Vec<u8> {
    v.as_array()
        .map(|a| a.iter().map(|b| b.as_u64().unwrap() as u8).collect())
        .unwrap_or_default()
}

/// Build a real protocol message from the abstract parts of a schedule.
/// Endpoints `[nsrel, a, k]`: nsrel 0 = this namespace; a = author rank (0 = zero id, 99 = 0xFF id).
pub fn build_message(w: &World, parts: &Value, fp_of: &dyn Fn(&Value) -> [u8; 32]) -> (ProtocolMessage, Value) {
    let mut out = vec![];
    let mut logged = vec![];
    let id_bytes = |x: &Value| -> Value {
        let nsrel = x[0].as_i64().unwrap();
        let a = x[1].as_i64().unwrap();
        let k = key_of(&x[2]);
        let ns: [u8; 32] = match nsrel {
            0 => w.ns.id().to_bytes(),
            -1 => [0u8; 32],
            _ => [255u8; 32],
        };
        let au: [u8; 32] = match a {
            0 => [0u8; 32],
            99 => [255u8; 32],
            r => w.author(r).id().to_bytes(),
        };
        let mut b = ns.to_vec();
        b.extend_from_slice(&au);
        b.extend_from_slice(&k);
        json!(b)
    };
    for p in parts.as_array().unwrap() {
        let range = json!({"x": id_bytes(&p["x"]), "y": id_bytes(&p["y"])});
        if p["t"] == "fp" {
            let fp = fp_of(&p["fp"]);
            out.push(json!({"RangeFingerprint": {"range": range, "fingerprint": fp.to_vec()}}));
            logged.push(json!({"t":"fp","x":p["x"],"y":p["y"],"fp":hex::encode(fp),"vals":[],"hl":false}));
        } else {
            let mut vals = vec![];
            let mut lvals = vec![];
            for v in p["vals"].as_array().unwrap() {
                let e = &v["e"];
                let (se, nsok, sigok) = forge(
                    w,
                    v["cls"].as_str().unwrap_or("ok"),
                    e["a"].as_i64().unwrap(),
                    &key_of(&e["k"]),
                    e["ts"].as_u64().unwrap(),
                    e["h"].as_i64().unwrap(),
                    e["len"].as_u64().unwrap(),
                );
                let cs = v["cs"].as_i64().unwrap_or(2);
                lvals.push(json!({"e": w.proj_entry(&se), "cs": cs, "nsok": nsok, "sigok": sigok}));
                vals.push(json!([serde_json::to_value(&se).unwrap(), serde_json::to_value(cs_of(cs)).unwrap()]));
            }
            out.push(json!({"RangeItem": {"range": range, "values": vals, "have_local": p["hl"]}}));
            logged.push(json!({"t":"item","x":p["x"],"y":p["y"],"fp":"","vals":lvals,"hl":p["hl"]}));
        }
    }
    let msg: ProtocolMessage =
        serde_json::from_value(json!({"parts": out})).expect("message from value");
    (msg, Value::Array(logged))
}

/// Project a real protocol message (a reply produced by the code under test).
pub fn proj_message(w: &World, msg: &ProtocolMessage) -> Value {
    let v = serde_json::to_value(msg).unwrap();
    let main = w.ns.id();
    let mut out = vec![];
    let id_of = |b: &Value| -> Value {
        let bytes: Vec<u8> = b.as_array().unwrap().iter().map(|x| x.as_u64().unwrap() as u8).collect();
        if bytes.len() < 64 {
            // a malformed identifier (only reachable through corrupted / hostile bytes)
            return json!([9, 9, key_json(&bytes)]);
        }
        let ns: [u8; 32] = bytes[0..32].try_into().unwrap();
        let a: [u8; 32] = bytes[32..64].try_into().unwrap();
        json!([w.ns_rel(&ns, &main), w.author_rank(&a), key_json(&bytes[64..])])
    };
    for p in v["parts"].as_array().unwrap() {
        if let Some(fp) = p.get("RangeFingerprint") {
            let f: Vec<u8> = fp["fingerprint"].as_array().unwrap().iter().map(|x| x.as_u64().unwrap() as u8).collect();
            out.push(json!({"t":"fp","x":id_of(&fp["range"]["x"]),"y":id_of(&fp["range"]["y"]),
                            "fp":hex::encode(f),"vals":[],"hl":false}));
        } else if let Some(it) = p.get("RangeItem") {
            let mut vals = vec![];
            for pair in it["values"].as_array().unwrap() {
                if pair[0]["entry"]["id"].as_array().map(|a| a.len()).unwrap_or(0) < 64 {
                    vals.push(json!({"e": {"a":9,"k":[],"ts":0,"h":0,"len":0}, "cs": 2, "nsok": false, "sigok": false}));
                    continue;
                }
                let se: SignedEntry = serde_json::from_value(pair[0].clone()).unwrap();
                let cs: ContentStatus = serde_json::from_value(pair[1].clone()).unwrap();
                vals.push(json!({"e": w.proj_entry(&se), "cs": cs_num(cs), "nsok": true, "sigok": true}));
            }
            out.push(json!({"t":"item","x":id_of(&it["range"]["x"]),"y":id_of(&it["range"]["y"]),
                            "fp":"","vals":vals,"hl":it["have_local"]}));
        }
    }
    Value::Array(out)
}

impl<'w> Run<'w> {
    pub fn new(w: &'w World, backend: Backend) -> Self {
        let mut store = backend.open();
        store
            .import_namespace(Capability::Write(w.ns.clone()))
            .expect("import ns");
        let info = store.load_replica_info(&w.nsid()).expect("load info");
        Run {
            w,
            backend,
            store: Some(store),
            info: Some(info),
            subs: (0..NSUB).map(|_| None).collect(),
        }
    }

    /// Populate neighbouring documents (namespaces below and above this one in byte order) in the same store:
    /// range scans of this document must never see them, whatever endpoints a peer sends.
    pub async fn add_neighbour_docs(&mut self) {
        let w = self.w;
        iroh_docs::verif::set_clock(1000);
        for ns in w.other_ns.iter() {
            let store = self.store.as_mut().unwrap();
            store.import_namespace(Capability::Write(ns.clone())).unwrap();
            let mut info = store.load_replica_info(&ns.id()).unwrap();
            for (i, k) in [&b""[..], &[0u8][..], &[255u8, 255][..]].iter().enumerate() {
                let se = w.signed_in(ns, 1 + (i as i64 % 2), k, 3, 1, 1);
                let mut rep = iroh_docs::verif::replica(store, &mut info);
                let _ = rep.insert_remote_entry(se, w.peers[0], ContentStatus::Missing).await;
            }
            store.close_replica(ns.id());
        }
    }

    fn drain(&mut self) -> Value {
        let w = self.w;
        let mut all = vec![];
        for s in self.subs.iter_mut() {
            let mut evs = vec![];
            if let Some(Sub { rx: Some(rx), .. }) = s {
                while let Ok(ev) = rx.try_recv() {
                    evs.push(match ev {
                        Event::LocalInsert { entry, .. } => {
                            json!({"o":"local","e":w.proj_entry(&entry),"from":0,"cs":0,"dl":false})
                        }
                        Event::RemoteInsert {
                            entry,
                            from,
                            should_download,
                            remote_content_status,
                            ..
                        } => json!({"o":"remote","e":w.proj_entry(&entry),"from":w.peer_rank(&from),
                                    "cs":cs_num(remote_content_status),"dl":should_download}),
                    });
                }
            }
            all.push(Value::Array(evs));
        }
        Value::Array(all)
    }

    fn observe(&mut self, mut ev: Value) -> Value {
        let ns = self.w.nsid();
        let evs = self.drain();
        let store = self.store.as_mut().unwrap();
        let (st, sok) = self.w.contents_verified(store, ns);
        ev["st"] = st;
        ev["sok"] = sok;
        ev["heads"] = self.w.heads(store, ns);
        ev["evs"] = evs;
        ev["nsubs"] = json!(self.info.as_ref().map(|i| i.subscribers_count()).unwrap_or(0));
        ev
    }

    /// Execute one op; returns the trace event (None if the op does not apply to this backend).
    pub async fn step(&mut self, op: &Value) -> Option<Value> {
        let w = self.w;
        let now = op["now"].as_u64().unwrap_or(1000);
        iroh_docs::verif::set_clock(now);
        let kind = op["op"].as_str().unwrap();
        // optionally leave a read snapshot / an open write transaction as the store's current transaction
        if let Some(store) = self.store.as_mut() {
            match op["pre"].as_str() {
                Some("list") => {
                    let _ = store.list_namespaces().map(|it| it.count());
                }
                Some("write") => {
                    let _ = store.import_author(w.stranger.clone());
                }
                _ => {}
            }
        }
        let ev = match kind {
            "local" | "delete" => {
                let a = op["a"].as_i64().unwrap();
                let k = key_of(&op["k"]);
                let h = op["h"].as_i64().unwrap_or(0);
                let len = op["len"].as_u64().unwrap_or(if h == 0 { 0 } else { 1 });
                let store = self.store.as_mut().unwrap();
                let mut rep = iroh_docs::verif::replica(store, self.info.as_mut().unwrap());
                let res = if kind == "local" {
                    rep.insert(&k, w.author(a), w.hash(h), len).await
                } else {
                    rep.delete_prefix(&k, w.author(a)).await
                };
                drop(rep);
                let e = json!({"a":a,"k":key_json(&k),"ts":now,"h": if kind=="local" {h} else {0},
                               "len": if kind=="local" {len} else {0}});
                let (r, removed) = match &res {
                    Ok(n) => ("ok".to_string(), *n as i64),
                    Err(e) => (insert_error_class(e).to_string(), -1),
                };
                json!({"ev":"Put","path":kind,"now":now,"e":e,"nsok":true,"sigok":true,"cls":"ok",
                       "from":0,"cs":0,"res":r,"removed":removed})
            }
            "remote" => {
                let e = &op["e"];
                let cls = op["cls"].as_str().unwrap_or("ok");
                let (se, nsok, sigok) = forge(
                    w,
                    cls,
                    e["a"].as_i64().unwrap(),
                    &key_of(&e["k"]),
                    e["ts"].as_u64().unwrap(),
                    e["h"].as_i64().unwrap(),
                    e["len"].as_u64().unwrap(),
                );
                let from = op["from"].as_i64().unwrap_or(1);
                let cs = op["cs"].as_i64().unwrap_or(2);
                let pe = w.proj_entry(&se);
                let store = self.store.as_mut().unwrap();
                let mut rep = iroh_docs::verif::replica(store, self.info.as_mut().unwrap());
                let res = rep
                    .insert_remote_entry(se, w.peers[(from - 1) as usize], cs_of(cs))
                    .await;
                drop(rep);
                let (r, removed) = match &res {
                    Ok(n) => ("ok".to_string(), *n as i64),
                    Err(e) => (insert_error_class(e).to_string(), -1),
                };
                json!({"ev":"Put","path":"remote","now":now,"e":pe,"nsok":nsok,"sigok":sigok,"cls":cls,
                       "from":from,"cs":cs,"res":r,"removed":removed})
            }
            "msg" => {
                let from = op["from"].as_i64().unwrap_or(1);
                let (msg, logged) = build_message(w, &op["parts"], &|v| {
                    // "empty" => fingerprint of the empty set; anything else: an impossible one
                    if v == "empty" {
                        *blake3_empty()
                    } else {
                        [0xABu8; 32]
                    }
                });
                iroh_docs::verif::set_sync_config(
                    op["split"].as_u64().unwrap_or(2) as usize,
                    op["maxset"].as_u64().unwrap_or(1) as usize,
                );
                let store = self.store.as_mut().unwrap();
                let mut rep = iroh_docs::verif::replica(store, self.info.as_mut().unwrap());
                let mut outcome = SyncOutcome::default();
                let res = rep
                    .sync_process_message(msg, w.peers[(from - 1) as usize], &mut outcome)
                    .await;
                drop(rep);
                let (r, reply) = match &res {
                    Ok(Some(m)) => ("ok", proj_message(w, m)),
                    Ok(None) => ("ok", json!([])),
                    Err(_) => ("err", json!([])),
                };
                let hr: Vec<Value> = outcome
                    .heads_received
                    .iter()
                    .map(|(a, t)| json!({"a": w.author_rank(&a.to_bytes()), "ts": t}))
                    .collect();
                json!({"ev":"Msg","now":now,"from":from,"parts":logged,"res":r,"reply":reply,
                       "recv":outcome.num_recv,"sent":outcome.num_sent,"hrecv":hr,
                       "cfg": json!([op["split"].as_u64().unwrap_or(2), op["maxset"].as_u64().unwrap_or(1)])})
            }
            "news" => {
                let mut heads = iroh_docs::AuthorHeads::default();
                let mut theirs = vec![];
                for h in op["heads"].as_array().unwrap() {
                    let a = h[0].as_i64().unwrap();
                    let t = h[1].as_u64().unwrap();
                    heads.insert(w.author(a).id(), t);
                    theirs.push(json!({"a": a, "ts": t}));
                }
                let res = self.store.as_mut().unwrap().has_news_for_us(w.nsid(), &heads);
                let count = match res {
                    Ok(Some(n)) => n.get() as i64,
                    Ok(None) => 0,
                    Err(_) => -1,
                };
                json!({"ev":"News","theirs":theirs,"count":count})
            }
            "sub" => {
                let s = op["s"].as_u64().unwrap() as usize;
                let (tx, rx) = async_channel::unbounded();
                self.info.as_mut().unwrap().subscribe(tx.clone());
                self.subs[s - 1] = Some(Sub { tx, rx: Some(rx) });
                json!({"ev":"Sub","s":s})
            }
            "unsub" => {
                let s = op["s"].as_u64().unwrap() as usize;
                if let Some(sub) = self.subs[s - 1].take() {
                    self.info.as_mut().unwrap().unsubscribe(&sub.tx);
                } else {
                    return None;
                }
                json!({"ev":"Unsub","s":s})
            }
            "droprx" => {
                let s = op["s"].as_u64().unwrap() as usize;
                match self.subs[s - 1].as_mut() {
                    Some(sub) if sub.rx.is_some() => {
                        sub.rx = None;
                    }
                    _ => return None,
                }
                json!({"ev":"DropRx","s":s})
            }
            "policy" => {
                let p = policy_of(op);
                let res = self.store.as_mut().unwrap().set_download_policy(&w.nsid(), p);
                json!({"ev":"Policy","kind":op["kind"],"filters":op["filters"],
                       "res": if res.is_ok() {"ok"} else {"err"}})
            }
            "remove" => {
                let store = self.store.as_mut().unwrap();
                store.close_replica(w.nsid());
                let r1 = store.remove_replica(&w.nsid());
                let r2 = store.import_namespace(Capability::Write(w.ns.clone()));
                self.info = Some(store.load_replica_info(&w.nsid()).expect("reload info"));
                self.subs = (0..NSUB).map(|_| None).collect();
                json!({"ev":"RemoveDoc","res": if r1.is_ok() && r2.is_ok() {"ok"} else {"err"}})
            }
            "reopen" => {
                if let Backend::Mem = self.backend {
                    return None;
                }
                drop(self.info.take());
                drop(self.store.take());
                let mut store = self.backend.open();
                self.info = Some(store.load_replica_info(&w.nsid()).expect("reload info"));
                self.store = Some(store);
                self.subs = (0..NSUB).map(|_| None).collect();
                json!({"ev":"Reopen"})
            }
            other => panic!("unknown op {other}"),
        };
        Some(self.observe(ev))
    }
}

pub fn blake3_empty() -> &'static [u8; 32] {
    // Fingerprint::empty() = blake3 of the empty string = Hash::EMPTY bytes
    iroh_blobs::Hash::EMPTY.as_bytes()
}

// ---------------------------------------------------------------------------------------------
// history generation (seeded); mirrors the universes of the TLA+ models and goes beyond them
// ---------------------------------------------------------------------------------------------

pub const KEYS: &[&[u8]] = &[
    &[],
    &[0],
    &[0, 255],
    &[1],
    &[255],
    &[255, 255],
    &[1, 0],
    &[0, 255, 7],
    &[1, 255],
    &[2],
    &[1, 255, 255],
    &[0, 0],
];

thread_local! {
    /// per-history extra keys (long / random / prefix-related), appended to KEYS by `key_at`
    static EXTRA_KEYS: std::cell::RefCell<Vec<Vec<u8>>> = std::cell::RefCell::new(vec![]);
}

/// choose the per-history pool of extra keys: random byte strings up to 40 bytes and their prefixes / extensions
pub fn reseed_extra_keys(r: &mut Rng, n: usize) {
    let special: &[u8] = &[0, 1, 127, 128, 254, 255];
    let mut v: Vec<Vec<u8>> = vec![];
    for _ in 0..n {
        let len = *r.pick(&[1usize, 2, 3, 8, 9, 31, 32, 33, 40]);
        let k: Vec<u8> = (0..len).map(|_| if r.chance(1, 2) { *r.pick(special) } else { r.below(256) as u8 }).collect();
        if k.len() > 1 {
            v.push(k[..k.len() - 1].to_vec());
        }
        let mut ext = k.clone();
        ext.push(*r.pick(special));
        v.push(ext);
        v.push(k);
    }
    EXTRA_KEYS.with(|e| *e.borrow_mut() = v);
}

/// key number i of the pool KEYS[..n_keys] ++ extra keys
pub fn key_at(i: usize, n_keys: usize) -> Vec<u8> {
    if i < n_keys {
        KEYS[i].to_vec()
    } else {
        EXTRA_KEYS.with(|e| {
            let e = e.borrow();
            if e.is_empty() { KEYS[i % n_keys].to_vec() } else { e[(i - n_keys) % e.len()].clone() }
        })
    }
}
pub fn pool_len(n_keys: usize) -> usize {
    n_keys + EXTRA_KEYS.with(|e| e.borrow().len())
}
pub fn pick_key(r: &mut Rng, n_keys: usize) -> Vec<u8> {
    key_at(r.below(pool_len(n_keys)), n_keys)
}

pub const CLASSES: &[&str] = &[
    "badns_sig",
    "badauth_sig",
    "swapped",
    "othersig",
    "foreign_ns",
    "foreign_ns_oursig",
    "noncurve_author",
    "weak_author",
    "flip_ts",
    "flip_len",
    "flip_hash",
    "flip_key",
    "flip_sig",
];

pub fn gen_endpoint(r: &mut Rng, g: &GenCfg) -> Value {
    match r.below(12) {
        0 => json!([-1, 0, []]),
        1 => json!([1, 99, [255]]),
        2 => json!([0, 0, []]),
        3 => json!([0, 99, key_json(&pick_key(r, g.n_keys))]),
        _ => json!([0, 1 + r.below(g.n_auth as usize), key_json(&pick_key(r, g.n_keys))]),
    }
}

pub struct GenCfg {
    pub n_auth: i64,
    pub n_keys: usize,
    pub max_ts: u64,
    pub len: usize,
    pub invalid: bool,
    pub subs: bool,
    pub msgs: bool,
    pub admin: bool,
    pub ranges: bool,
}

pub fn gen_entry(r: &mut Rng, g: &GenCfg, now: u64) -> Value {
    let a = 1 + r.below(g.n_auth as usize) as i64;
    let k = pick_key(r, g.n_keys);
    let k = &k[..];
    let ts = 1 + r.below(g.max_ts as usize) as u64;
    let h = *r.pick(&[-1i64, 0, 0, 1, 1, 2]);
    // content length is a function of the content hash (as for real content)
    let mut len = if h == 0 { 0 } else { 1 };
    let mut ts = ts;
    if g.invalid {
        if r.chance(1, 12) {
            // malformed emptiness
            len = if h == 0 { 1 } else { 0 };
        }
        if r.chance(1, 10) {
            // around the future bound
            ts = now + MAX_SHIFT - 1 + r.below(3) as u64;
        }
    }
    json!({"a":a,"k":key_json(k),"ts":ts,"h":h,"len":len})
}

pub fn gen_history(r: &mut Rng, g: &GenCfg) -> Vec<Value> {
    // large histories also draw from a per-history pool of long / random / prefix-related keys
    let extra = if g.n_keys >= 8 { 1 + r.below(3) } else { 0 };
    reseed_extra_keys(r, extra);
    let mut ops = vec![];
    let mut now = 10u64;
    for _ in 0..g.len {
        now += r.below(3) as u64;
        let x = r.below(100);
        let op = if g.subs && x < 8 {
            json!({"op":"sub","s":1 + r.below(NSUB)})
        } else if g.subs && x < 12 {
            json!({"op":"unsub","s":1 + r.below(NSUB)})
        } else if g.subs && x < 15 {
            json!({"op":"droprx","s":1 + r.below(NSUB)})
        } else if g.admin && x < 18 {
            let nf = r.below(3);
            let filters: Vec<Value> = (0..nf)
                .map(|_| json!([if r.chance(1, 2) {"prefix"} else {"exact"}, key_json(&pick_key(r, g.n_keys))]))
                .collect();
            json!({"op":"policy","kind": if r.chance(1,2) {"only"} else {"except"},"filters":filters})
        } else if g.admin && x < 20 {
            json!({"op":"remove"})
        } else if g.admin && x < 22 {
            json!({"op":"reopen"})
        } else if g.admin && x < 27 {
            let na = r.below(g.n_auth as usize + 1);
            let hs: Vec<Value> = (1..=na).map(|a| json!([a, 1 + r.below(g.max_ts as usize + 1)])).collect();
            json!({"op":"news","heads":hs})
        } else if x < 40 {
            let a = 1 + r.below(g.n_auth as usize) as i64;
            let k = pick_key(r, g.n_keys);
            // local inserts use the clock as timestamp; move the clock around (skew) within max_ts
            let t = 1 + r.below(g.max_ts as usize) as u64;
            let h = *r.pick(&[-1i64, 1, 2]);
            json!({"op":"local","a":a,"k":key_json(&k),"h":h,"now":t})
        } else if x < 50 {
            let a = 1 + r.below(g.n_auth as usize) as i64;
            let k = pick_key(r, g.n_keys);
            let t = 1 + r.below(g.max_ts as usize) as u64;
            json!({"op":"delete","a":a,"k":key_json(&k),"now":t})
        } else if g.ranges && x < 75 {
            // primitive sweep (C08): fingerprint parts with an impossible / the empty fingerprint and item
            // parts that request our entries, over arbitrary ranges (x<y, x>y, x=y; foreign endpoints)
            let np = 1 + r.below(2);
            let parts: Vec<Value> = (0..np)
                .map(|_| {
                    let x = gen_endpoint(r, g);
                    let y = if r.chance(1, 5) { x.clone() } else { gen_endpoint(r, g) };
                    if r.chance(2, 3) {
                        json!({"t":"fp","x":x,"y":y,"fp": if r.chance(1,4) {"empty"} else {"impossible"}})
                    } else {
                        let nv = r.below(3);
                        let vals: Vec<Value> = (0..nv)
                            .map(|_| json!({"e": gen_entry(r, g, now), "cls": "ok", "cs": r.below(3)}))
                            .collect();
                        json!({"t":"item","x":x,"y":y,"vals":vals,"hl":r.chance(1,3)})
                    }
                })
                .collect();
            let c = *r.pick(&[(2u64, 1u64), (2, 2), (3, 1), (4, 1), (3, 2), (5, 3)]);
            json!({"op":"msg","parts":parts,"from":1 + r.below(2),"now":now,"split":c.0,"maxset":c.1})
        } else if g.msgs && x < 65 {
            // a message with 1..3 item parts (have_local = true so that no reply diff is computed
            // for most of them), entries of any class
            let np = 1 + r.below(3);
            let parts: Vec<Value> = (0..np)
                .map(|_| {
                    let nv = r.below(3);
                    let vals: Vec<Value> = (0..nv)
                        .map(|_| {
                            let cls = if g.invalid && r.chance(1, 3) { *r.pick(CLASSES) } else { "ok" };
                            json!({"e": gen_entry(r, g, now), "cls": cls, "cs": r.below(3)})
                        })
                        .collect();
                    // (every third part asks for the receiver's side of the range, have_local = false: the receiver then also
                    // walks the values to compute its reply - in whatever order the sender listed them)
                    json!({"t":"item","x":[0,0,[]],"y":[0,0,[]],"vals":vals,"hl": !r.chance(1, 3)})
                })
                .collect();
            json!({"op":"msg","parts":parts,"from":1 + r.below(2),"now":now})
        } else {
            let cls = if g.invalid && r.chance(1, 3) { *r.pick(CLASSES) } else { "ok" };
            json!({"op":"remote","e":gen_entry(r, g, now),"cls":cls,"from":1 + r.below(2),"cs":r.below(3),"now":now})
        };
        let mut op = op;
        if !matches!(op["op"].as_str(), Some("reopen") | Some("remove")) && r.chance(1, 8) {
            op["pre"] = json!(*r.pick(&["list", "write"]));
        }
        ops.push(op);
        // signatures of an entry this replica has ALREADY verified, attached to other content ("signature taken from another
        // entry" with a donor the store has seen - a verification memo must not vouch for it): a valid donor (a, k, ts, h=1)
        // first, then the same identifier and timestamp with another hash under the donor's two signatures
        if g.invalid && r.chance(1, 8) {
            let mut d = gen_entry(r, g, now);
            d["h"] = json!(1);
            d["len"] = json!(1);
            ops.push(json!({"op":"remote","e":d,"cls":"ok","from":1,"cs":2,"now":now}));
            let mut f = d.clone();
            f["h"] = json!(2);
            if r.chance(1, 2) || !g.msgs {
                ops.push(json!({"op":"remote","e":f,"cls":"flip_hash","from":1 + r.below(2),"cs":r.below(3),"now":now}));
            } else {
                ops.push(json!({"op":"msg","parts":[{"t":"item","x":[0,0,[]],"y":[0,0,[]],"vals":[{"e":f,"cls":"flip_hash","cs":r.below(3)}],"hl":true}],
                                "from":1 + r.below(2),"now":now}));
            }
        }
    }
    ops
}


/// Which values of an op does a replica that never sees unacceptable entries receive?  (C03, twin run.)
/// The rule is the driver's own filter, not an oracle: every decision is logged (`tw`) and the trace
/// specification checks it against `Acceptable` before it trusts the twin's state.
fn val_kept(w: &World, e: &Value, cls: &str, now: u64) -> bool {
    let (se, nsok, sigok) = forge(w, cls, e["a"].as_i64().unwrap(), &key_of(&e["k"]), e["ts"].as_u64().unwrap(),
                                  e["h"].as_i64().unwrap(), e["len"].as_u64().unwrap());
    let empty_hash = se.content_hash() == iroh_blobs::Hash::EMPTY;
    nsok && sigok && se.timestamp() <= now + MAX_SHIFT && (empty_hash == (se.content_len() == 0))
}

/// (op for the twin or None, the logged keep-flags)
fn twin_op(w: &World, op: &Value) -> (Option<Value>, Value) {
    let now = op["now"].as_u64().unwrap_or(1000);
    match op["op"].as_str().unwrap() {
        "remote" => {
            let keep = val_kept(w, &op["e"], op["cls"].as_str().unwrap_or("ok"), now);
            (if keep { Some(op.clone()) } else { None }, json!(keep))
        }
        "msg" => {
            let mut t = op.clone();
            let mut flags = vec![];
            for (pi, p) in op["parts"].as_array().unwrap().iter().enumerate() {
                let mut pf = vec![];
                let mut kept = vec![];
                if let Some(vals) = p["vals"].as_array() {
                    for v in vals {
                        let k = val_kept(w, &v["e"], v["cls"].as_str().unwrap_or("ok"), now);
                        pf.push(json!(k));
                        if k {
                            kept.push(v.clone());
                        }
                    }
                    t["parts"][pi]["vals"] = Value::Array(kept);
                }
                flags.push(Value::Array(pf));
            }
            (Some(t), Value::Array(flags))
        }
        _ => (Some(op.clone()), json!(true)),
    }
}

/// Run a list of histories, emitting one `Reset` + events per history.
pub fn run_histories(
    w: &World,
    seed: u64,
    neighbours: bool,
    twin: bool,
    histories: &[(Vec<Value>, bool)],
    dir: &Path,
    trace: &mut Trace,
    sum: &mut Summary,
) {
    let rt = tokio::runtime::Builder::new_current_thread()
        .enable_all()
        .build()
        .unwrap();
    for (i, (ops, file)) in histories.iter().enumerate() {
        let backend = if *file {
            let p = dir.join(format!("replica-{i}.redb"));
            let _ = std::fs::remove_file(&p);
            Backend::File(p)
        } else {
            Backend::Mem
        };
        let bname = backend.name();
        let mut run = Run::new(w, backend);
        let mut shadow = if twin { Some(Run::new(w, Backend::Mem)) } else { None };
        if neighbours {
            rt.block_on(run.add_neighbour_docs());
        }
        trace.emit(json!({"ev":"Reset","run":i,"backend":bname,"seed":seed,"ops":ops}));
        sum.add("histories", 1);
        for op in ops {
            let res = rt.block_on(async {
                let fut = run.step(op);
                // a panic inside the code under test is data
                match futures_lite::future::FutureExt::catch_unwind(std::panic::AssertUnwindSafe(fut)).await {
                    Ok(v) => v,
                    Err(_) => Some(json!({"ev":"PANIC","op":op.clone()})),
                }
            });
            if let Some(mut ev) = res {
                if let (Some(sh), false) = (shadow.as_mut(), ev["ev"] == "PANIC") {
                    // the same history on a replica that is never shown the unacceptable entries
                    let (top, flags) = twin_op(w, op);
                    if let Some(top) = top {
                        let _ = rt.block_on(async {
                            futures_lite::future::FutureExt::catch_unwind(std::panic::AssertUnwindSafe(sh.step(&top))).await
                        });
                    }
                    ev["tw"] = flags;
                    ev["twin"] = w.contents(sh.store.as_mut().unwrap(), w.nsid());
                }
                let panicked = ev["ev"] == "PANIC";
                sum.add(&format!("ev_{}", ev["ev"].as_str().unwrap_or("?")), 1);
                // how often each class of forged entry was offered (single inserts and values of reconciliation messages)
                if let Some(c) = op["cls"].as_str() {
                    if c != "ok" {
                        sum.add(&format!("forged_{c}"), 1);
                    }
                }
                for part in op["parts"].as_array().into_iter().flatten() {
                    for v in part["vals"].as_array().into_iter().flatten() {
                        if let Some(c) = v["cls"].as_str() {
                            if c != "ok" {
                                sum.add(&format!("forged_{c}"), 1);
                            }
                        }
                    }
                }
                trace.emit(ev);
                if panicked {
                    break;
                }
            }
        }
        drop(run);
        if *file {
            let _ = std::fs::remove_file(dir.join(format!("replica-{i}.redb")));
        }
    }
    iroh_docs::verif::set_clock(0);
}
