//! Client-API driver (extension X01: `Api.tla` / `ApiTrace.tla`): a real node (`Docs::memory()` /
//! `Docs::persistent(dir)` = Engine + live actor + store actor + RPC actor) driven through `DocsApi` / `Doc`:
//! authors and the default author, document creation / import / open / close / drop, start_sync / leave / share,
//! status, writes and reads, subscriptions; graceful restarts on the same directory and crash images (the
//! directory copied without shutdown, a second node started on the copy).
//!
//! Identities are projected to small integers by order of first appearance (documents: slots, authors: ranks).

use std::{collections::HashMap, path::Path, time::Duration};

use futures_lite::StreamExt;
use iroh::{endpoint::presets, protocol::ProtocolHandler, Endpoint};
use iroh_docs::{
    api::{
        protocol::{AddrInfoOptions, ShareMode},
        Doc,
    },
    protocol::Docs,
    store::Query,
    AuthorId, Capability, CapabilityKind, NamespaceId,
};
use iroh_gossip::net::Gossip;
use serde_json::{json, Value};

use crate::{replica::KEYS, world::*};

const NSLOTS: usize = 5;
const T: Duration = Duration::from_secs(15);

struct Ids {
    slots: Vec<NamespaceId>,
    authors: Vec<AuthorId>,
}
impl Ids {
    fn slot(&mut self, id: NamespaceId) -> Option<usize> {
        if let Some(i) = self.slots.iter().position(|x| *x == id) {
            return Some(i + 1);
        }
        if self.slots.len() >= NSLOTS {
            return None;
        }
        self.slots.push(id);
        Some(self.slots.len())
    }
    fn rank(&mut self, id: AuthorId) -> i64 {
        if let Some(i) = self.authors.iter().position(|x| *x == id) {
            return i as i64 + 1;
        }
        self.authors.push(id);
        self.authors.len() as i64
    }
}

async fn spawn(ep: &Endpoint, dir: Option<&Path>) -> anyhow::Result<Docs> {
    let gossip = Gossip::builder().spawn(ep.clone());
    let blobs = iroh_blobs::store::mem::MemStore::new();
    let blobs_api: iroh_blobs::api::Store = (*blobs).clone();
    match dir {
        None => Docs::memory().spawn(ep.clone(), blobs_api, gossip).await,
        Some(d) => Docs::persistent(d.to_path_buf()).spawn(ep.clone(), blobs_api, gossip).await,
    }
}

macro_rules! call {
    ($fut:expr) => {
        match tokio::time::timeout(T, $fut).await {
            Err(_) => Err("HANG".to_string()),
            Ok(Err(e)) => Err(format!("{e:#}")),
            Ok(Ok(v)) => Ok(v),
        }
    };
}

fn res_of<Tv>(r: &Result<Tv, String>) -> &'static str {
    match r {
        Ok(_) => "ok",
        Err(e) if e == "HANG" => "HANG",
        Err(_) => "err",
    }
}

async fn author_list(docs: &Docs, ids: &mut Ids) -> Result<Vec<i64>, String> {
    let st = call!(docs.author_list())?;
    tokio::pin!(st);
    let mut out = vec![];
    loop {
        match tokio::time::timeout(T, st.next()).await {
            Err(_) => return Err("HANG".into()),
            Ok(None) => break,
            Ok(Some(Err(e))) => return Err(format!("{e:#}")),
            Ok(Some(Ok(a))) => out.push(ids.rank(a)),
        }
    }
    out.sort();
    Ok(out)
}

async fn doc_list(docs: &Docs, ids: &mut Ids) -> Result<Vec<Value>, String> {
    let st = call!(docs.list())?;
    tokio::pin!(st);
    let mut out = vec![];
    loop {
        match tokio::time::timeout(T, st.next()).await {
            Err(_) => return Err("HANG".into()),
            Ok(None) => break,
            Ok(Some(Err(e))) => return Err(format!("{e:#}")),
            Ok(Some(Ok((id, kind)))) => {
                let s = ids.slot(id).map(|s| s as i64).unwrap_or(0);
                out.push(json!([s, if matches!(kind, CapabilityKind::Write) { "write" } else { "read" }]));
            }
        }
    }
    Ok(out)
}

fn proj(w: &World, ids: &mut Ids, e: &iroh_docs::Entry) -> Value {
    json!({"a": ids.rank(e.author()), "k": key_json(e.key()), "ts": e.timestamp(), "h": w.hash_rank(&e.content_hash()), "len": e.content_len()})
}

fn copy_dir(from: &Path, to: &Path) {
    std::fs::create_dir_all(to).ok();
    if let Ok(rd) = std::fs::read_dir(from) {
        for f in rd.flatten() {
            if f.path().is_file() {
                std::fs::copy(f.path(), to.join(f.file_name())).ok();
            }
        }
    }
}

pub fn run(w: &World, seed: u64, rng: &mut Rng, n: usize, dir: &Path, trace: &mut Trace, sum: &mut Summary) {
    let rt = tokio::runtime::Builder::new_multi_thread().worker_threads(3).enable_all().build().unwrap();
    let ep = match rt.block_on(Endpoint::bind(presets::Minimal)) {
        Ok(e) => e,
        Err(_) => {
            trace.emit(json!({"ev":"Reset","run":0,"seed":seed,"ops":[]}));
            trace.emit(json!({"ev":"Stuck","kind":"api-endpoint"}));
            return;
        }
    };
    for i in 0..n {
        let persistent = i % 4 != 0;
        let base = dir.join(format!("api-{seed}-{i}"));
        let _ = std::fs::remove_dir_all(&base);
        std::fs::create_dir_all(&base).ok();
        let evs = rt.block_on(history(w, rng, &ep, if persistent { Some(base.as_path()) } else { None }, i, seed, sum));
        for ev in evs {
            trace.emit(ev);
        }
        let _ = std::fs::remove_dir_all(&base);
        let _ = std::fs::remove_dir_all(dir.join(format!("api-{seed}-{i}-img")));
        sum.add("histories", 1);
    }
    rt.block_on(ep.close());
}

async fn history(w: &World, rng: &mut Rng, ep: &Endpoint, dir: Option<&Path>, run: usize, seed: u64, sum: &mut Summary) -> Vec<Value> {
    let mut evs = vec![];
    let mut ids = Ids { slots: vec![], authors: vec![] };
    let mut docs = match spawn(ep, dir).await {
        Ok(d) => d,
        Err(_) => return vec![json!({"ev":"Reset","run":run,"seed":seed,"ops":[]}), json!({"ev":"Stuck","kind":"api-spawn"})],
    };
    let def0 = match call!(docs.author_default()) {
        Ok(a) => ids.rank(a),
        Err(_) => 0,
    };
    let authors0 = author_list(&docs, &mut ids).await.unwrap_or_default();
    evs.push(json!({"ev":"Reset","run":run,"seed":seed,"ops":[],"n":NSLOTS,"def":def0,"authors":authors0,"persistent":dir.is_some()}));
    // Doc objects: (slot, object, closed on the client side)
    let mut objs: Vec<(usize, Doc, bool)> = vec![];
    let mut streams = vec![];
    let mut clock = 10u64;
    let mut forced: Vec<usize> = vec![];
    let steps = 8 + rng.below(18);
    let world_ns = [w.ns.clone(), w.other_ns[0].clone(), w.other_ns[1].clone()];
    for _ in 0..steps {
        clock += 1;
        iroh_docs::verif::set_clock(clock);
        // every now and then: a new author becomes the default and the process dies right away (with or without a
        // committing read in between) - the window in which the default-author file can name an uncommitted author
        if forced.is_empty() && dir.is_some() && rng.chance(1, 12) {
            forced.extend(if rng.chance(1, 3) { vec![0usize, 27, 15, 60] } else { vec![0usize, 15, 60] });
        }
        let was_forced = !forced.is_empty();
        let x = if was_forced { forced.remove(0) } else { rng.below(118) };
        // ---------------- authors
        if x < 6 {
            let r = call!(docs.author_create());
            let a = r.as_ref().map(|a| ids.rank(*a)).unwrap_or(0);
            evs.push(json!({"ev":"Call","op":"AuthorCreate","a":a,"res":res_of(&r)}));
        } else if x < 9 {
            let au = w.author(1 + rng.below(3) as i64).clone();
            let a = ids.rank(au.id());
            let r = call!(docs.author_import(au));
            evs.push(json!({"ev":"Call","op":"AuthorImport","a":a,"res":res_of(&r)}));
        } else if x < 14 && !ids.authors.is_empty() {
            let a = 1 + rng.below(ids.authors.len());
            let r = call!(docs.author_delete(ids.authors[a - 1]));
            evs.push(json!({"ev":"Call","op":"AuthorDelete","a":a,"res":res_of(&r)}));
        } else if x < 21 && !ids.authors.is_empty() {
            let a = if was_forced { ids.authors.len() } else { 1 + rng.below(ids.authors.len()) };
            let r = call!(docs.author_set_default(ids.authors[a - 1]));
            evs.push(json!({"ev":"Call","op":"AuthorSetDefault","a":a,"res":res_of(&r)}));
        } else if x < 24 {
            let r = call!(docs.author_default());
            let v = r.as_ref().map(|a| ids.rank(*a)).unwrap_or(0);
            evs.push(json!({"ev":"Call","op":"AuthorDefault","res":res_of(&r),"val":[v]}));
        } else if x < 26 && !ids.authors.is_empty() {
            let a = 1 + rng.below(ids.authors.len());
            let r = call!(docs.author_export(ids.authors[a - 1]));
            let v = r.as_ref().map(|o| o.is_some()).unwrap_or(false);
            evs.push(json!({"ev":"Call","op":"AuthorExport","a":a,"res":res_of(&r),"val":[v]}));
        } else if x < 29 {
            let r = author_list(&docs, &mut ids).await;
            evs.push(json!({"ev":"Call","op":"AuthorList","res":res_of(&r),"val":r.unwrap_or_default()}));
        // ---------------- documents by id
        } else if x < 35 {
            if ids.slots.len() >= NSLOTS {
                continue;
            }
            let r = call!(docs.create());
            let mut d = 0;
            if let Ok(doc) = &r {
                d = ids.slot(doc.id()).unwrap_or(0);
                objs.push((d, doc.clone(), false));
            }
            evs.push(json!({"ev":"Call","op":"Create","d":d,"res":res_of(&r)}));
        } else if x < 40 {
            let ns = rng.pick(&world_ns).clone();
            let Some(d) = ids.slot(ns.id()) else { continue };
            let write = rng.chance(1, 2);
            let cap = if write { Capability::Write(ns.clone()) } else { Capability::Read(ns.id()) };
            let r = call!(docs.import_namespace(cap));
            if let Ok(doc) = &r {
                objs.push((d, doc.clone(), false));
            }
            evs.push(json!({"ev":"Call","op":"ImportNs","d":d,"kind": if write {"write"} else {"read"},"res":res_of(&r)}));
        } else if x < 46 && !ids.slots.is_empty() {
            let d = 1 + rng.below(ids.slots.len());
            let r = call!(docs.open(ids.slots[d - 1]));
            if let Ok(Some(doc)) = &r {
                objs.push((d, doc.clone(), false));
            }
            evs.push(json!({"ev":"Call","op":"Open","d":d,"res":res_of(&r)}));
        } else if x < 51 && !ids.slots.is_empty() {
            let d = 1 + rng.below(ids.slots.len());
            let r = call!(docs.drop_doc(ids.slots[d - 1]));
            evs.push(json!({"ev":"Call","op":"DropDoc","d":d,"res":res_of(&r)}));
        } else if x < 55 {
            let r = doc_list(&docs, &mut ids).await;
            evs.push(json!({"ev":"Call","op":"List","res":res_of(&r),"val":r.unwrap_or_default()}));
        // ---------------- restart / crash
        } else if x < 58 {
            let Some(p) = dir else { continue };
            docs.shutdown().await;
            drop(docs);
            objs.clear();
            streams.clear();
            match spawn(ep, Some(p)).await {
                Ok(d) => docs = d,
                Err(e) => {
                    evs.push(json!({"ev":"Restart","res":"err","why":format!("{e:#}")}));
                    return evs;
                }
            }
            let def = call!(docs.author_default()).map(|a| ids.rank(a)).unwrap_or(0);
            let au = author_list(&docs, &mut ids).await.unwrap_or_default();
            let li = doc_list(&docs, &mut ids).await.unwrap_or_default();
            evs.push(json!({"ev":"Restart","res":"ok","def":def,"authors":au,"list":li}));
            sum.add("restarts", 1);
        } else if x < 64 {
            let Some(p) = dir else { continue };
            let img = p.with_file_name(format!("{}-img", p.file_name().unwrap().to_string_lossy()));
            let _ = std::fs::remove_dir_all(&img);
            copy_dir(p, &img);
            match spawn(ep, Some(img.as_path())).await {
                Err(e) => evs.push(json!({"ev":"Crash","spawn":false,"def":0,"authors":[],"why":format!("{e:#}")})),
                Ok(d2) => {
                    let def = call!(d2.author_default()).map(|a| ids.rank(a)).unwrap_or(0);
                    let au = author_list(&d2, &mut ids).await.unwrap_or_default();
                    evs.push(json!({"ev":"Crash","spawn":true,"def":def,"authors":au}));
                    d2.shutdown().await;
                }
            }
            let _ = std::fs::remove_dir_all(&img);
            sum.add("crash_images", 1);
        // ---------------- through a Doc object
        } else {
            if objs.is_empty() {
                continue;
            }
            // mostly live objects; sometimes one that was closed on the client side
            let cands: Vec<usize> = (0..objs.len()).filter(|&j| !objs[j].2).collect();
            let j = if !cands.is_empty() && !rng.chance(1, 8) { *rng.pick(&cands) } else { rng.below(objs.len()) };
            let (d, doc, closedobj) = (objs[j].0, objs[j].1.clone(), objs[j].2);
            let mut ev = json!({"ev":"Call","d":d,"closedobj":closedobj});
            if x < 73 {
                let r = call!(doc.close());
                objs[j].2 = true;
                ev["op"] = json!("Close");
                ev["res"] = json!(res_of(&r));
            } else if x < 81 {
                let r = call!(doc.status());
                ev["op"] = json!("Status");
                ev["res"] = json!(res_of(&r));
                ev["val"] = r.map(|s| json!([s.handles, s.sync, s.subscribers])).unwrap_or(json!([]));
            } else if x < 87 {
                let r = call!(doc.start_sync(vec![]));
                ev["op"] = json!("StartSync");
                ev["res"] = json!(res_of(&r));
            } else if x < 92 {
                let r = call!(doc.leave());
                ev["op"] = json!("Leave");
                ev["res"] = json!(res_of(&r));
            } else if x < 96 {
                let write = rng.chance(1, 2);
                let r = call!(doc.share(if write { ShareMode::Write } else { ShareMode::Read }, AddrInfoOptions::Id));
                ev["op"] = json!("Share");
                ev["mode"] = json!(if write { "write" } else { "read" });
                ev["res"] = json!(res_of(&r));
            } else if x < 99 {
                // a refusal arrives as the first item of the stream: the RPC actor serves calls one at a time, so after
                // one more round trip the subscribe handler has finished and its error, if any, is in the channel
                let r = call!(doc.subscribe());
                ev["op"] = json!("Subscribe");
                let mut res = res_of(&r);
                if let Ok(mut s) = r {
                    let _ = call!(docs.author_default());
                    match tokio::time::timeout(Duration::from_millis(40), s.next()).await {
                        Ok(Some(Err(_))) | Ok(None) => res = "err",
                        _ => streams.push(s),
                    }
                }
                ev["res"] = json!(res);
            } else if x < 107 && !ids.authors.is_empty() {
                let a = 1 + rng.below(ids.authors.len());
                let k = KEYS[rng.below(5)];
                let h = *rng.pick(&[-1i64, 1, 2]);
                let r = call!(doc.set_hash(ids.authors[a - 1], k.to_vec(), w.hash(h), 1));
                ev["op"] = json!("SetHash");
                ev["e"] = json!({"a":a,"k":key_json(k),"ts":clock,"h":h,"len":1});
                ev["res"] = json!(res_of(&r));
            } else if x < 110 && !ids.authors.is_empty() {
                let a = 1 + rng.below(ids.authors.len());
                let k = KEYS[rng.below(5)];
                let r = call!(doc.del(ids.authors[a - 1], k.to_vec()));
                ev["op"] = json!("Del");
                ev["e"] = json!({"a":a,"k":key_json(k),"ts":clock,"h":0,"len":0});
                ev["res"] = json!(res_of(&r));
                ev["val"] = r.map(|n| json!([n])).unwrap_or(json!([]));
            } else if x < 113 && !ids.authors.is_empty() {
                let a = 1 + rng.below(ids.authors.len());
                let k = KEYS[rng.below(5)];
                let r = call!(doc.get_exact(ids.authors[a - 1], k.to_vec(), true));
                ev["op"] = json!("GetExact");
                ev["a"] = json!(a);
                ev["k"] = key_json(k);
                ev["res"] = json!(res_of(&r));
                ev["val"] = match r {
                    Ok(Some(e)) => json!([proj(w, &mut ids, &e)]),
                    _ => json!([]),
                };
            } else {
                let r = call!(doc.get_many(Query::all().include_empty().build()));
                ev["op"] = json!("GetMany");
                let mut out = vec![];
                let mut res = res_of(&r);
                if let Ok(st) = r {
                    tokio::pin!(st);
                    loop {
                        match tokio::time::timeout(T, st.next()).await {
                            Err(_) => {
                                res = "HANG";
                                break;
                            }
                            Ok(None) => break,
                            Ok(Some(Err(_))) => {
                                res = "err";
                                break;
                            }
                            Ok(Some(Ok(e))) => out.push(proj(w, &mut ids, &e)),
                        }
                    }
                }
                ev["res"] = json!(res);
                ev["val"] = json!(out);
            }
            evs.push(ev);
        }
        sum.add("calls", 1);
    }
    docs.shutdown().await;
    evs
}
