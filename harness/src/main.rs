#![allow(dead_code, unused_imports)]
//! vdrive: executes schedules against the real iroh-docs code and records ndjson traces.
//! It contains no oracle; TLC decides.

mod actor;
mod api;
mod codec;
mod docs;
mod downloads;
mod heads;
mod livesync;
mod netpair;
mod nodes;
mod protect;
mod query;
mod replica;
mod session;
mod storetx;
mod swarm;
mod syncsession;
mod world;

use std::{collections::HashMap, path::PathBuf};

use serde_json::Value;
use world::*;

pub struct Args {
    pub cmd: String,
    pub kv: HashMap<String, String>,
}
impl Args {
    pub fn get(&self, k: &str, d: &str) -> String {
        self.kv.get(k).cloned().unwrap_or_else(|| d.to_string())
    }
    pub fn num(&self, k: &str, d: u64) -> u64 {
        self.kv.get(k).and_then(|v| v.parse().ok()).unwrap_or(d)
    }
    pub fn out(&self) -> PathBuf {
        PathBuf::from(self.get("out", "trace.ndjson"))
    }
}

fn parse_args() -> Args {
    let mut it = std::env::args().skip(1);
    let cmd = it.next().unwrap_or_else(|| "help".into());
    let mut kv = HashMap::new();
    while let Some(a) = it.next() {
        if let Some(k) = a.strip_prefix("--") {
            let v = it.next().unwrap_or_default();
            kv.insert(k.to_string(), v);
        }
    }
    Args { cmd, kv }
}

/// Read schedules: one JSON value per line.
pub fn read_schedules(path: &str) -> Vec<Value> {
    let txt = std::fs::read_to_string(path).expect("read schedules");
    txt.lines()
        .filter(|l| !l.trim().is_empty())
        .map(|l| serde_json::from_str(l).expect("schedule json"))
        .collect()
}

fn main() {
    // panics in the code under test are caught and logged as data; keep the default hook quiet
    if std::env::var("VDRIVE_PANIC_MSG").is_err() {
        std::panic::set_hook(Box::new(|_| {}));
    }
    let args = parse_args();
    let seed = args.num("seed", 1);
    let out = args.out();
    let dir = out.parent().map(|p| p.to_path_buf()).unwrap_or_else(|| PathBuf::from("."));
    std::fs::create_dir_all(&dir).ok();
    let mut trace = Trace::create(&out);
    let mut sum = Summary::default();
    match args.cmd.as_str() {
        "replica" => cmd_replica(&args, seed, &dir, &mut trace, &mut sum),
        "session" => {
            let w = World::new(seed, 3, 3);
            let mut rng = Rng::new(seed);
            let mut scs: Vec<Value> = vec![];
            if let Some(p) = args.kv.get("schedules") {
                for s in read_schedules(p) {
                    scs.push(s["sc"].clone());
                }
            }
            scs.extend(session::gen_scenarios(&mut rng, args.num("n", 100) as usize));
            let rt = tokio::runtime::Builder::new_current_thread().enable_all().build().unwrap();
            for (i, sc) in scs.iter().enumerate() {
                rt.block_on(session::run_scenario(&w, sc, i, seed, &dir, &mut trace, &mut sum));
            }
        }
        "query" => {
            let w = World::new(seed, 3, 3);
            let mut rng = Rng::new(seed);
            query::run(&w, seed, &mut rng, args.num("n", 10) as usize, args.num("sample", 500) as usize,
                       &dir, &mut trace, &mut sum);
        }
        "actor" => {
            let w = std::sync::Arc::new(World::new(seed, 3, 7));
            let mut rng = Rng::new(seed);
            let scheds = args.kv.get("schedules").map(|p| read_schedules(p)).unwrap_or_default();
            actor::run(w.clone(), seed, &mut rng, scheds, args.num("n", 60) as usize, &dir, &mut trace, &mut sum);
            actor::run_concurrent(w, seed, &mut rng, args.num("conc", 0) as usize, &mut trace, &mut sum);
        }
        "codec" => {
            let w = World::new(seed, 3, 3);
            let mut rng = Rng::new(seed);
            codec::run(&w, seed, &mut rng, args.num("n", 4) as usize, &mut trace, &mut sum);
        }
        "syncsession" => {
            let w = World::new(seed, 3, 3);
            let mut rng = Rng::new(seed);
            let scheds = args.kv.get("schedules").map(|p| read_schedules(p)).unwrap_or_default();
            syncsession::run(&w, seed, &mut rng, scheds, args.num("n", 60) as usize, &mut trace, &mut sum);
        }
        "livesync" => {
            let w = std::sync::Arc::new(World::new(seed, 3, 3));
            if args.num("probe", 0) == 1 {
                livesync::probe(w);
                return;
            }
            let scheds = args.kv.get("schedules").map(|p| read_schedules(p)).unwrap_or_default();
            livesync::run(w, seed, scheds, &mut trace, &mut sum);
        }
        "storetx" => {
            let w = World::new(seed, 3, 7);
            let mut rng = Rng::new(seed);
            let scheds = args.kv.get("schedules").map(|p| read_schedules(p)).unwrap_or_default();
            if args.num("actor", 0) == 1 {
                storetx::run_actor(&w, seed, &mut rng, args.num("n", 8) as usize, &dir, &mut trace, &mut sum);
            } else {
                storetx::run(&w, seed, &mut rng, scheds, args.num("n", 10) as usize, args.num("focus", 0) == 1, &dir, &mut trace, &mut sum);
            }
        }
        "swarm" => {
            let w = World::new(seed, 3, 3);
            let mut rng = Rng::new(seed);
            let scheds = args.kv.get("schedules").map(|p| read_schedules(p)).unwrap_or_default();
            swarm::run(&w, seed, &mut rng, scheds, args.num("n", 30) as usize, &dir, &mut trace, &mut sum);
        }
        "api" => {
            let w = World::new(seed, 3, 3);
            let mut rng = Rng::new(seed);
            api::run(&w, seed, &mut rng, args.num("n", 20) as usize, &dir, &mut trace, &mut sum);
        }
        "downloads" => {
            let w = World::new(seed, 3, 3);
            let mut rng = Rng::new(seed);
            downloads::run(&w, seed, &mut rng, args.num("n", 20) as usize, &mut trace, &mut sum);
        }
        "nodes" => {
            let w = World::new(seed, 3, 3);
            let mut rng = Rng::new(seed);
            nodes::run(&w, seed, &mut rng, args.num("n", 10) as usize, args.num("garbage", 0), &mut trace, &mut sum);
        }
        "protect" => {
            let w = World::new(seed, 3, 3);
            let mut rng = Rng::new(seed);
            protect::run(&w, seed, &mut rng, args.num("n", 20) as usize, &mut trace, &mut sum);
        }
        "docs" => {
            let w = World::new(seed, 3, 7);
            let mut rng = Rng::new(seed);
            let scheds = args.kv.get("schedules").map(|p| read_schedules(p)).unwrap_or_default();
            docs::run(&w, seed, &mut rng, scheds, args.num("n", 60) as usize, args.num("plant", 0) == 1, &dir, &mut trace, &mut sum);
        }
        "heads" => {
            let w = World::new(seed, 6, 2);
            let mut rng = Rng::new(seed);
            heads::run(&w, &mut rng, args.num("n", 300) as usize, &mut trace, &mut sum);
            sum.add("histories", 1);
        }
        other => {
            eprintln!("unknown command {other}");
            std::process::exit(2);
        }
    }
    let lines = trace.finish();
    sum.add("trace_lines", lines);
    sum.write(&out.with_extension("summary.json"));
}

fn cmd_replica(args: &Args, seed: u64, dir: &std::path::Path, trace: &mut Trace, sum: &mut Summary) {
    let w = World::new(seed, 3, 3);
    let mut rng = Rng::new(seed);
    let profile = args.get("profile", "c02");
    let n = args.num("n", 200) as usize;
    let file_every = args.num("file-every", 4) as usize;
    let mut histories: Vec<(Vec<Value>, bool)> = vec![];
    if let Some(p) = args.kv.get("schedules") {
        for (i, s) in read_schedules(p).into_iter().enumerate() {
            let ops = s["ops"].as_array().cloned().unwrap_or_default();
            let file = match s["backend"].as_str() {
                Some("file") => true,
                Some(_) => false,
                None => file_every > 0 && i % file_every == 0,
            };
            histories.push((ops, file));
        }
    }
    for i in 0..n {
        let small = i % 2 == 0;
        let g = match profile.as_str() {
            "c02" => replica::GenCfg {
                n_auth: if small { 1 } else { 2 },
                n_keys: if small { 4 } else { replica::KEYS.len() },
                max_ts: if small { 3 } else { 6 },
                len: if small { 6 } else { 24 },
                invalid: false,
                subs: false,
                // reconciliation messages with several entries of several authors: one call, one store view
                msgs: !small,
                admin: i % 5 == 0,
                ranges: false,
            },
            "c08" => replica::GenCfg {
                n_auth: if small { 1 } else { 3 },
                n_keys: if small { 5 } else { replica::KEYS.len() },
                max_ts: 4,
                len: if small { 12 } else { 30 },
                invalid: false,
                subs: false,
                msgs: false,
                admin: false,
                ranges: true,
            },
            "c03" => replica::GenCfg {
                n_auth: 2,
                n_keys: if small { 4 } else { 8 },
                max_ts: 4,
                len: if small { 8 } else { 20 },
                invalid: true,
                subs: true,
                msgs: true,
                admin: false,
                ranges: false,
            },
            _ => replica::GenCfg {
                n_auth: 2,
                n_keys: if small { 4 } else { 8 },
                max_ts: 4,
                len: if small { 10 } else { 30 },
                invalid: i % 3 == 0,
                subs: true,
                msgs: true,
                admin: true,
                ranges: false,
            },
        };
        histories.push((replica::gen_history(&mut rng, &g), file_every > 0 && i % file_every == 0));
    }
    replica::run_histories(&w, seed, profile == "c08", args.num("twin", 0) == 1, &histories, dir, trace, sum);
}
