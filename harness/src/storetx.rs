//! Crash / commit-placement driver (C06): operation histories on a persistent store; a baseline run records
//! the live state after every call and the number of table accesses each call makes; then, for every call and
//! every access of it, the history is re-run with the open transaction aged right before that access (hook H4),
//! and after every call from there on the database file is copied *without committing* (the crash image),
//! reopened with Store::persistent and observed.

use std::path::Path;

use serde_json::{json, Value};

use crate::{docs::*, world::*};

fn image(w: &World, live: &Path, img: &Path) -> Value {
    let _ = std::fs::remove_file(img);
    if std::fs::copy(live, img).is_err() {
        return json!({"opened": false, "docs": [], "hashes": []});
    }
    let r = std::panic::catch_unwind(std::panic::AssertUnwindSafe(|| {
        match iroh_docs::store::Store::persistent(img) {
            Err(_) => None,
            Ok(store) => {
                drop(store);
                let mut run = DocsRun::new(w, Some(img.to_path_buf()));
                Some(run.observe_pub())
            }
        }
    }));
    let out = match r {
        Ok(Some((docs, hashes))) => json!({"opened": true, "docs": docs, "hashes": hashes}),
        Ok(None) => json!({"opened": false, "docs": [], "hashes": []}),
        Err(_) => json!({"opened": false, "panic": true, "docs": [], "hashes": []}),
    };
    let _ = std::fs::remove_file(img);
    out
}

pub fn gen_history(r: &mut Rng, t: &DocTable, len: usize, focus_remove: bool, tail_remove: bool) -> Vec<Value> {
    // start with documents that can be written, then mostly writes (pruning and non-pruning), with
    // commits (flush / snapshot read) and settings interleaved
    let real = t.real();
    let mut ops = vec![];
    for d in &real[..2] {
        ops.push(json!({"op":"import","d":d,"kind":"write"}));
        ops.push(json!({"op":"open","d":d}));
    }
    let keys: &[&[u8]] = &[&[], &[0], &[0, 1], &[0, 255], &[1]];
    for _ in 0..len {
        let d = real[r.below(2)];
        let x = r.below(100);
        let ts = 1 + r.below(5) as u64;
        if (90..94).contains(&x) || (focus_remove && (90..97).contains(&x)) {
            // a removal that can succeed: the document is closed first; sometimes it is re-created and written again
            ops.push(json!({"op":"close","d":d}));
            ops.push(json!({"op":"remove","d":d}));
            if r.chance(1, 2) {
                ops.push(json!({"op":"import","d":d,"kind":"write"}));
                ops.push(json!({"op":"open","d":d}));
            }
            continue;
        }
        ops.push(if x < 40 {
            json!({"op":"local","d":d,"a":1 + r.below(2),"k":key_json(keys[r.below(keys.len())]),"h":*r.pick(&[1i64,2]),"now":ts})
        } else if x < 52 {
            json!({"op":"delete","d":d,"a":1 + r.below(2),"k":key_json(keys[r.below(keys.len())]),"now":ts})
        } else if x < 66 {
            let h = *r.pick(&[0i64, 1, 2]);
            json!({"op":"remote","d":d,"e":{"a":1 + r.below(2),"k":key_json(keys[r.below(keys.len())]),"ts":ts,"h":h,"len": if h == 0 {0} else {1}}})
        } else if x < 72 {
            json!({"op":"flush"})
        } else if x < 78 {
            json!({"op":"getmany","d":d})
        } else if x < 81 {
            // a call that FAILS (document never created): it must not disturb what was acknowledged before
            let ghost = t.n();   // the all-0xFF synthetic id, never imported in these histories
            if r.chance(1, 2) {
                json!({"op":"policy","d":ghost,"kind":"only","filters":[["prefix",[0]]]})
            } else {
                json!({"op":"peer","d":ghost,"p":1 + r.below(3)})
            }
        } else if x < 84 {
            json!({"op":"peer","d":d,"p":1 + r.below(3)})
        } else if x < 90 {
            json!({"op":"policy","d":d,"kind":"only","filters":[["prefix",[0]]]})
        } else if x < 94 {
            json!({"op":"remove","d":d})     // (unreachable: handled above; a bare removal of an open document is refused)
        } else if x < 97 {
            json!({"op":"close","d":d})
        } else {
            json!({"op":"open","d":d})
        });
    }
    if tail_remove {
        // every history of the removal drive (and every third history of C06's own drive) ends with the removal of a document that holds entries, heads, a peer and a policy
        let d = real[r.below(2)];
        ops.push(json!({"op":"import","d":d,"kind":"write"}));
        ops.push(json!({"op":"open","d":d}));
        for i in 0..1 + r.below(3) {
            ops.push(json!({"op":"local","d":d,"a":1 + r.below(2),"k":key_json(keys[r.below(keys.len())]),"h":1 + (i as i64 % 2),"now":6 + i as u64}));
        }
        ops.push(json!({"op":"peer","d":d,"p":1 + r.below(3)}));
        if r.chance(1, 2) {
            ops.push(json!({"op":"flush"}));
        }
        ops.push(json!({"op":"close","d":d}));
        ops.push(json!({"op":"remove","d":d}));
    }
    ops
}

pub fn run(w: &World, seed: u64, rng: &mut Rng, schedules: Vec<Value>, n: usize, focus_remove: bool, dir: &Path, trace: &mut Trace, sum: &mut Summary) {
    let rt = tokio::runtime::Builder::new_current_thread().enable_all().build().unwrap();
    let t = DocTable::new(w);
    let mut hists: Vec<Vec<Value>> = schedules.into_iter().map(|s| s["ops"].as_array().cloned().unwrap_or_default()).collect();
    for i in 0..n {
        hists.push(gen_history(rng, &t, if i % 2 == 0 { 5 } else { 10 }, focus_remove, focus_remove || i % 3 == 2));
    }
    let live_path = dir.join("storetx-live.redb");
    let img_path = dir.join("storetx-img.redb");
    for (hi, ops) in hists.iter().enumerate() {
        // ---- baseline: live states and access counts
        let _ = std::fs::remove_file(&live_path);
        let mut live = vec![];
        let mut counts = vec![];
        let mut kinds = vec![];
        {
            let mut run = DocsRun::new(w, Some(live_path.clone()));
            let (d0, h0) = run.observe_pub();
            live.push(json!({"docs": d0, "hashes": h0}));
            for op in ops {
                iroh_docs::verif::take_access_count();
                let ev = rt.block_on(run.exec(op));
                let c = iroh_docs::verif::take_access_count();
                if ev.is_none() {
                    continue;
                }
                counts.push(c);
                kinds.push(ev.unwrap()["ev"].clone());
                let (d, h) = run.observe_pub();
                live.push(json!({"docs": d, "hashes": h}));
            }
        }
        let nops = counts.len();
        // ---- crash runs: (call i, access n); (0,0) = no forced aging
        // (focus_remove: only the placements inside removal calls, and only the image right after that call - C16's drive)
        let mut placements: Vec<(usize, u64)> = if focus_remove { vec![] } else { vec![(0, 0)] };
        for (i, c) in counts.iter().enumerate() {
            if focus_remove && kinds[i] != "Remove" {
                continue;
            }
            for a in 1..=*c {
                placements.push((i + 1, a));
            }
        }
        for (pi, pn) in placements {
            let _ = std::fs::remove_file(&live_path);
            let mut run = DocsRun::new(w, Some(live_path.clone()));
            trace.emit(json!({"ev":"Reset","run":hi,"seed":seed,"ops":ops,"backend":"file","live":live,"kinds":kinds,
                              "age":[pi, pn],"counts":counts}));
            sum.add("histories", 1);
            sum.add("commit_placements", 1);
            let mut j = 0usize;
            for op in ops {
                if j + 1 == pi {
                    iroh_docs::verif::age_transaction_before_access(pn);
                }
                let ev = rt.block_on(futures_lite::future::FutureExt::catch_unwind(std::panic::AssertUnwindSafe(run.exec(op))));
                iroh_docs::verif::age_transaction_before_access(0);
                let ev = match ev {
                    Err(_) => {
                        trace.emit(json!({"ev":"PANIC","i":j + 1}));
                        break;
                    }
                    Ok(None) => continue,
                    Ok(Some(ev)) => ev,
                };
                j += 1;
                // crash images from the call with the forced commit on (earlier ones equal the (0,0) run)
                if (pi == 0 || j >= pi) && (!focus_remove || j == pi) {
                    let img = image(w, &live_path, &img_path);
                    trace.emit(json!({"ev":"Img","i":j,"kind":ev["ev"],"res":ev["res"],"opened":img["opened"],
                                      "docs":img["docs"],"hashes":img["hashes"]}));
                    sum.add("crash_images", 1);
                }
            }
            drop(run);
            let _ = nops;
        }
    }
    let _ = std::fs::remove_file(&live_path);
    iroh_docs::verif::set_clock(0);
}


/// The same question through the store actor (C06 names `src/actor.rs`: the actor flushes the store when it has been idle
/// for MAX_COMMIT_DELAY): writes through a real `SyncHandle`, then - in any combination - half a second and more of
/// idleness and `flush_store()`, then the database file is copied without shutting anything down and the copy is
/// opened.  The live states come from a twin store that runs the same calls directly.
pub fn run_actor(w: &World, seed: u64, rng: &mut Rng, n: usize, dir: &Path, trace: &mut Trace, sum: &mut Summary) {
    use iroh_docs::{actor::{OpenOpts, SyncHandle}, store::Store, Capability};
    let rt = tokio::runtime::Builder::new_multi_thread().worker_threads(2).enable_all().build().unwrap();
    let t = DocTable::new(w);
    let d = t.real()[0];
    let keys: &[&[u8]] = &[&[], &[0], &[0, 1], &[0, 255], &[1]];
    let live_path = dir.join("storetx-actor-live.redb");
    let twin_path = dir.join("storetx-actor-twin.redb");
    let img_path = dir.join("storetx-actor-img.redb");
    for i in 0..n {
        let _ = std::fs::remove_file(&live_path);
        let _ = std::fs::remove_file(&twin_path);
        // the history: k writes, then idle and / or flush in one of four shapes
        let k = 1 + rng.below(3);
        let mut ops = vec![json!({"op":"import","d":d,"kind":"write"}), json!({"op":"open","d":d})];
        for j in 0..k {
            ops.push(json!({"op":"local","d":d,"a":1 + rng.below(2),"k":key_json(keys[rng.below(keys.len())]),"h":1 + (j as i64 % 2),"now":5 + j as u64}));
        }
        // "shutdown": the handle's shutdown request is the last flush point a process has (the actor commits before it hands
        // the store back); the image is taken while the caller still holds the returned store
        let tail: &[&str] = match i % 5 {
            0 => &["idle", "flush"],
            1 => &["flush"],
            2 => &["idle"],
            3 => &["flush", "idle"],
            _ => &["shutdown"],
        };
        // twin: live state after every call (idle / flush change nothing a reader sees)
        let mut live = vec![];
        let mut kinds: Vec<Value> = vec![];
        {
            let mut twin = DocsRun::new(w, Some(twin_path.clone()));
            let (d0, h0) = twin.observe_pub();
            live.push(json!({"docs": d0, "hashes": h0}));
            for op in &ops {
                if let Some(ev) = rt.block_on(twin.exec(op)) {
                    kinds.push(ev["ev"].clone());
                    let (dd, hh) = twin.observe_pub();
                    live.push(json!({"docs": dd, "hashes": hh}));
                }
            }
            for tl in tail {
                kinds.push(json!(if *tl == "idle" { "Idle" } else { "Flush" }));
                live.push(live.last().unwrap().clone());
            }
        }
        let mut all_ops = ops.clone();
        for tl in tail {
            all_ops.push(json!({"op": tl}));
        }
        trace.emit(json!({"ev":"Reset","run":i,"seed":seed,"ops":all_ops,"backend":"file","live":live,"kinds":kinds,"age":[0, 0],"counts":[],"via":"actor"}));
        sum.add("histories", 1);
        // the store under test, behind its actor
        let res: Result<(), String> = rt.block_on(async {
            let store = Store::persistent(&live_path).map_err(|e| e.to_string())?;
            let h = SyncHandle::spawn(store, None, "c06".into());
            let ns = t.id(d);
            for a in 1..=2 {
                h.import_author(w.author(a).clone()).await.map_err(|e| e.to_string())?;
            }
            h.import_namespace(Capability::Write(t.secret(d).unwrap().clone())).await.map_err(|e| e.to_string())?;
            h.open(ns, OpenOpts::default()).await.map_err(|e| e.to_string())?;
            for op in ops.iter().skip(2) {
                iroh_docs::verif::set_clock(op["now"].as_u64().unwrap());
                let key = crate::replica::key_of(&op["k"]);
                let _ = h.insert_local(ns, w.author(op["a"].as_i64().unwrap()).id(), key.into(), w.hash(op["h"].as_i64().unwrap()), 1).await;
            }
            let mut handed_back = None;
            for tl in tail {
                if *tl == "idle" {
                    tokio::time::sleep(std::time::Duration::from_millis(750)).await;
                } else if *tl == "shutdown" {
                    handed_back = Some(h.shutdown().await.map_err(|e| e.to_string())?);
                } else {
                    h.flush_store().await.map_err(|e| e.to_string())?;
                }
            }
            // the process dies here: copy the file while the actor is still alive, then let it go
            let img = image(w, &live_path, &img_path);
            trace.emit(json!({"ev":"Img","i":kinds.len(),"kind":kinds.last().cloned().unwrap_or(json!("")),"res":"ok","opened":img["opened"],
                              "docs":img["docs"],"hashes":img["hashes"]}));
            sum.add("crash_images", 1);
            let _ = h.shutdown().await;
            drop(handed_back);
            Ok(())
        });
        if let Err(e) = res {
            trace.emit(json!({"ev":"Stuck","what":e}));
        }
    }
    for p in [&live_path, &twin_path, &img_path] {
        let _ = std::fs::remove_file(p);
    }
    iroh_docs::verif::set_clock(0);
}
