//! Sync-session driver (C10): the real initiator loop (`run_alice`) and the real acceptor state machine
//! (`BobState::run` + `into_outcome`) over in-memory duplex streams, against (a) a scripted adversarial
//! peer and (b) each other through a frame-level proxy that injects local faults (replica closed, sync
//! disabled, actor shut down) and truncations at chosen message boundaries.

use std::time::Duration;

use iroh_docs::{
    actor::{OpenOpts, SyncHandle},
    net::{
        verif_codec::{alice, encode_frame, Frame, StreamDecoder, MAX_FRAME},
        AbortReason, AcceptOutcome, VerifBobState,
    },
    store::Store,
    Capability,
};
use serde_json::{json, Value};
use tokio::io::{AsyncReadExt, AsyncWriteExt, DuplexStream};

use crate::{
    replica::build_message,
    session::{gen_set, Side},
    world::*,
};

const WATCHDOG: Duration = Duration::from_secs(8);

fn peer_key(w: &World, i: usize) -> iroh::PublicKey {
    iroh::SecretKey::from_bytes(&w.peers[i]).public()
}

async fn mk_store(w: &World, rng: &mut Rng) -> (Store, Value) {
    let mut side = Side::new(w, &Backend::Mem);
    side.fill(w, &gen_set(rng, 2, 6, 3, 5)).await;
    let before = w.contents(&mut side.store, w.nsid());
    side.store.close_replica(w.nsid());
    (side.store, before)
}

async fn apply_fault(h: &SyncHandle, w: &World, fault: &str, kept: &mut Option<Store>) {
    match fault {
        "closed" => {
            let _ = h.close(w.nsid()).await;
        }
        "syncoff" => {
            let _ = h.set_sync(w.nsid(), false).await;
        }
        "down" => {
            if let Ok(s) = h.shutdown().await {
                *kept = Some(s);
            }
        }
        _ => {}
    }
}

/// read from `io` until one frame is decoded, EOF (None), or an undecodable frame (Err)
async fn read_frame(io: &mut tokio::io::ReadHalf<DuplexStream>, dec: &mut StreamDecoder) -> Result<Option<Frame>, ()> {
    loop {
        match dec.decode() {
            Ok(Some(f)) => return Ok(Some(f)),
            Ok(None) => {}
            Err(_) => return Err(()),
        }
        let mut buf = [0u8; 4096];
        match io.read(&mut buf).await {
            Ok(0) => return Ok(None),
            Ok(n) => dec.feed(&buf[..n]),
            Err(_) => return Ok(None),
        }
    }
}

fn arb_message(w: &World, rng: &mut Rng) -> iroh_docs::sync::ProtocolMessage {
    let e = json!({"a":1,"k":key_json(&[rng.below(3) as u8]),"ts":1 + rng.below(5),"h":1,"len":1});
    let parts = if rng.chance(1, 2) {
        json!([{"t":"item","x":[0,0,[]],"y":[0,0,[]],"vals":[{"e":e,"cls":"ok","cs":2}],"hl":true}])
    } else {
        json!([{"t":"fp","x":[0,1,[]],"y":[0,2,[1]],"fp":"impossible"}])
    };
    build_message(w, &parts, &|_| [0xAB; 32]).0
}

/// A message of one item part over the whole range carrying 1-3 validly signed entries the acceptor does not hold yet.
fn arb_items(w: &World, rng: &mut Rng) -> iroh_docs::sync::ProtocolMessage {
    let n = 1 + rng.below(3);
    let vals: Vec<Value> = (0..n)
        .map(|i| json!({"e":{"a":1 + rng.below(2),"k":key_json(&[7, i as u8, rng.below(200) as u8]),"ts":50 + rng.below(5),"h":1 + i,"len":1 + i},
                        "cls":"ok","cs":2}))
        .collect();
    let parts = json!([{"t":"item","x":[0,0,[]],"y":[0,0,[]],"vals":vals,"hl":true}]);
    build_message(w, &parts, &|_| [0xAB; 32]).0
}

/// A frame (raw bytes, hand-encoded postcard) whose single fingerprint part carries record identifiers that are
/// shorter than namespace + author ids (hostile peer). `init`: wrap in Init{namespace}, else Sync.
fn bad_id_frame(w: &World, rng: &mut Rng, init: bool) -> Vec<u8> {
    let n = rng.below(64);
    let short: Vec<u8> = (0..n).map(|_| rng.below(256) as u8).collect();
    let mut body: Vec<u8> = vec![];
    if init {
        body.push(0); // Message::Init
        body.extend_from_slice(w.nsid().as_bytes());
    } else {
        body.push(1); // Message::Sync
    }
    body.push(1); // one part
    body.push(0); // MessagePart::RangeFingerprint
    body.push(n as u8);
    body.extend_from_slice(&short);
    body.push(n as u8);
    body.extend_from_slice(&short);
    body.extend_from_slice(&[7u8; 32]);
    let mut v = (body.len() as u32).to_be_bytes().to_vec();
    v.extend_from_slice(&body);
    v
}

fn raw_bad(kind: &str) -> Vec<u8> {
    match kind {
        "Garbage" => {
            let mut v = 5u32.to_be_bytes().to_vec();
            v.extend_from_slice(&[0xFF; 5]);
            v
        }
        "Oversize" => ((MAX_FRAME + 1) as u32).to_be_bytes().to_vec(),
        // the stream ends inside a length prefix (2 of its 4 bytes)
        "PartialPrefix" => vec![0, 0],
        _ => {
            // Partial: announces 100 bytes, delivers 10
            let mut v = 100u32.to_be_bytes().to_vec();
            v.extend_from_slice(&[1; 10]);
            v
        }
    }
}

const BOB_FRAMES: &[&str] = &["InitOk", "InitOk", "InitItems", "InitUnknown", "InitBadId", "SyncValid", "SyncValid", "SyncArb", "SyncBadId", "Abort", "Garbage", "Oversize", "Partial", "PartialPrefix", "Eof"];
const CONDS: &[&str] = &["", "", "", "", "closed", "syncoff", "down"];

/// Scripted peer against the real acceptor.
pub async fn bob_case(w: &World, rng: &mut Rng, script: &Value) -> Value {
    iroh_docs::verif::set_clock(1000);
    let (store, before) = mk_store(w, rng).await;
    let handle = SyncHandle::spawn(store, None, "bob".into());
    let _ = handle.open(w.nsid(), OpenOpts::default().sync()).await;
    let mut kept: Option<Store> = None;
    let accept = script["accept"].as_str().unwrap_or("Allow").to_string();
    let (bob_io, peer_io) = tokio::io::duplex(1 << 22);
    let (bob_r, bob_w) = tokio::io::split(bob_io);
    let (mut peer_r, mut peer_w) = tokio::io::split(peer_io);
    let h2 = handle.clone();
    let acc = accept.clone();
    let pk = peer_key(w, 0);
    // what the acceptor says it sent (into_outcome) and what this peer actually got in reply frames
    let sent_cell = std::sync::Arc::new(std::sync::atomic::AtomicI64::new(-1));
    let sent_out = sent_cell.clone();
    let mut peer_got: i64 = 0;
    let task = tokio::spawn(async move {
        let mut st = VerifBobState::new(pk);
        let res = st
            .run(bob_w, bob_r, h2, move |_ns, _peer| {
                let acc = acc.clone();
                async move {
                    match acc.as_str() {
                        "Allow" => AcceptOutcome::Allow,
                        "RejectNotFound" => AcceptOutcome::Reject(AbortReason::NotFound),
                        _ => AcceptOutcome::Reject(AbortReason::AlreadySyncing),
                    }
                }
            })
            .await;
        let cls = match &res {
            Ok(_) => "ok",
            Err(iroh_docs::net::AcceptError::Abort { .. }) => "abort",
            Err(_) => "err",
        };
        let ns_known = st.namespace().is_some();
        let out = std::panic::catch_unwind(std::panic::AssertUnwindSafe(move || st.into_outcome()));
        let sent = out.as_ref().map(|o| o.num_sent as i64).unwrap_or(-1);
        sent_out.store(sent, std::sync::atomic::Ordering::SeqCst);
        (cls, out.is_ok(), ns_known)
    });
    tokio::pin!(task);
    // the peer's own replica, to produce genuine messages
    let mut me = Side::new(w, &Backend::Mem);
    me.fill(w, &gen_set(rng, 2, 6, 3, 5)).await;
    let mut dec = StreamDecoder::default();
    let mut steps = vec![];
    let mut cond = "ok".to_string();
    let mut last_reply: Option<iroh_docs::sync::ProtocolMessage> = None;
    let mut finished: Option<(&'static str, bool, bool)> = None;
    let mut hang = false;
    let mut frames: Vec<Value> = script["frames"].as_array().cloned().unwrap_or_default();
    frames.push(json!({"frame":"Eof","fault":""}));
    let mut closed = false;
    let mut graveyard: Vec<tokio::io::DuplexStream> = vec![];
    for f in frames {
        if finished.is_some() || closed {
            break;
        }
        let fault = f["fault"].as_str().unwrap_or("");
        if !fault.is_empty() && cond != "down" {
            apply_fault(&handle, w, fault, &mut kept).await;
            cond = fault.to_string();
        }
        let mut kind = f["frame"].as_str().unwrap().to_string();
        // build + send
        match kind.as_str() {
            "InitOk" | "InitUnknown" => {
                let m = me.init().unwrap();
                let ns = if kind == "InitOk" { w.nsid() } else { w.other_ns[1].id() };
                let _ = peer_w.write_all(&encode_frame(Frame::Init { namespace: ns, message: m }).unwrap()).await;
            }
            "InitItems" => {
                // a (dishonest but well-formed) opening message that already carries entries instead of a fingerprint
                let m = arb_items(w, rng);
                let _ = peer_w.write_all(&encode_frame(Frame::Init { namespace: w.nsid(), message: m }).unwrap()).await;
            }
            "InitBadId" => {
                let _ = peer_w.write_all(&bad_id_frame(w, rng, true)).await;
            }
            "SyncBadId" => {
                let _ = peer_w.write_all(&bad_id_frame(w, rng, false)).await;
            }
            "SyncValid" | "SyncArb" => {
                let m = match (kind.as_str(), last_reply.take()) {
                    ("SyncValid", Some(r)) => match me.process(r, w.peers[1]).await {
                        Ok(Some(m)) => m,
                        _ => {
                            kind = "SyncArb".into();
                            arb_message(w, rng)
                        }
                    },
                    _ => {
                        kind = "SyncArb".into();
                        arb_message(w, rng)
                    }
                };
                let _ = peer_w.write_all(&encode_frame(Frame::Sync(m)).unwrap()).await;
            }
            "Abort" => {
                let _ = peer_w.write_all(&encode_frame(Frame::Abort { reason: AbortReason::InternalServerError }).unwrap()).await;
            }
            "Eof" => {
                let _ = peer_w.shutdown().await;
                closed = true;
            }
            other => {
                let _ = peer_w.write_all(&raw_bad(other)).await;
                if other == "Partial" || other == "PartialPrefix" {
                    let _ = peer_w.shutdown().await;
                    closed = true;
                }
            }
        }
        let gone = f["gone"].as_bool().unwrap_or(false) && !closed;
        if gone {
            // the peer is gone: both directions of its stream are dropped (replaced by the ends of an unrelated pipe)
            let (d1, d2) = tokio::io::duplex(8);
            let (dr, dw) = tokio::io::split(d1);
            drop(std::mem::replace(&mut peer_r, dr));
            drop(std::mem::replace(&mut peer_w, dw));
            graveyard.push(d2);
            closed = true;
        }
        // observe the reaction: a reply frame, or termination
        let reaction = tokio::select! {
            r = &mut task => {
                let r = r.unwrap_or(("PANIC", false, false));
                finished = Some(r);
                r.0
            }
            fr = read_frame(&mut peer_r, &mut dec) => match fr {
                Ok(Some(Frame::Sync(m))) => { peer_got += count_values(&m); last_reply = Some(m); "reply" }
                Ok(Some(Frame::Abort { .. })) => "abortframe",
                Ok(Some(Frame::Init { .. })) => "initframe",
                _ => "closed",
            },
            _ = tokio::time::sleep(WATCHDOG) => { hang = true; "HANG" }
        };
        let mut reaction = reaction.to_string();
        if reaction == "abortframe" || reaction == "closed" {
            // the acceptor sent its abort / closed its side: it must now terminate
            let r = tokio::select! {
                r = &mut task => r.unwrap_or(("PANIC", false, false)),
                _ = tokio::time::sleep(WATCHDOG) => { hang = true; ("HANG", true, false) }
            };
            finished = Some(r);
            reaction = r.0.to_string();
        }
        steps.push(json!({"frame":kind,"cond":cond,"reaction":reaction,"gone":gone}));
        if hang {
            break;
        }
    }
    drop(graveyard);
    let (res, outcome_ok, ns_known) = finished.unwrap_or(("HANG", true, false));
    // the store afterwards
    if kept.is_none() {
        kept = handle.shutdown().await.ok();
    }
    // the store actor must have survived whatever the peer sent (it hands back its store)
    let alive = kept.is_some();
    let after = match kept.as_mut() {
        Some(s) => w.contents(s, w.nsid()),
        None => json!("ERR"),
    };
    json!({"ev":"Bob","accept":accept,"steps":steps,"res":res,"outcome": if outcome_ok {"ok"} else {"PANIC"},
           "changed": before != after, "hang": hang, "ns": ns_known, "alive": alive,
           "sent": sent_cell.load(std::sync::atomic::Ordering::SeqCst), "got": peer_got})
}

const ALICE_FRAMES: &[&str] = &["SyncValid", "SyncValid", "SyncValid", "SyncArb", "SyncBadId", "InitOk", "Abort", "Garbage", "Oversize", "Partial", "PartialPrefix", "Eof"];

/// Scripted peer against the real initiator.
pub async fn alice_case(w: &World, rng: &mut Rng, script: &Value) -> Value {
    iroh_docs::verif::set_clock(1000);
    let (store, _before) = mk_store(w, rng).await;
    let handle = SyncHandle::spawn(store, None, "alice".into());
    let _ = handle.open(w.nsid(), OpenOpts::default().sync()).await;
    let mut kept: Option<Store> = None;
    let startcond = script["start"].as_str().unwrap_or("").to_string();
    let mut cond = "ok".to_string();
    if !startcond.is_empty() {
        apply_fault(&handle, w, &startcond, &mut kept).await;
        cond = startcond.clone();
    }
    let (alice_io, peer_io) = tokio::io::duplex(1 << 22);
    let (mut a_r, mut a_w) = tokio::io::split(alice_io);
    let (mut peer_r, mut peer_w) = tokio::io::split(peer_io);
    let h2 = handle.clone();
    let ns = w.nsid();
    let pk = peer_key(w, 1);
    let task = tokio::spawn(async move {
        let res = alice(&mut a_w, &mut a_r, &h2, ns, pk).await;
        match res {
            Ok(o) => ("ok", o.num_recv, o.num_sent),
            Err(iroh_docs::net::ConnectError::RemoteAbort(_)) => ("abort", 0, 0),
            Err(_) => ("err", 0, 0),
        }
    });
    tokio::pin!(task);
    let mut me = Side::new(w, &Backend::Mem);
    me.fill(w, &gen_set(rng, 2, 6, 3, 5)).await;
    let mut dec = StreamDecoder::default();
    let mut steps = vec![];
    let mut finished: Option<(&'static str, usize, usize)> = None;
    let mut hang = false;
    // first reaction: the Init frame, or an early error
    let mut last: Option<iroh_docs::sync::ProtocolMessage> = None;
    let first = tokio::select! {
        r = &mut task => { let r = r.unwrap_or(("PANIC", 0, 0)); finished = Some(r); r.0 }
        fr = read_frame(&mut peer_r, &mut dec) => match fr {
            Ok(Some(Frame::Init { message, .. })) => { last = Some(message); "init" }
            Ok(Some(_)) => "otherframe",
            _ => "closed",
        },
        _ = tokio::time::sleep(WATCHDOG) => { hang = true; "HANG" }
    };
    let mut first = first.to_string();
    if first == "closed" {
        // the initiator dropped its streams: it must have terminated
        let r = tokio::select! {
            r = &mut task => r.unwrap_or(("PANIC", 0, 0)),
            _ = tokio::time::sleep(WATCHDOG) => { hang = true; ("HANG", 0, 0) }
        };
        finished = Some(r);
        first = r.0.to_string();
    }
    steps.push(json!({"frame":"Start","cond":cond,"reaction":first}));
    let mut frames: Vec<Value> = script["frames"].as_array().cloned().unwrap_or_default();
    frames.push(json!({"frame":"Eof","fault":""}));
    let mut closed = false;
    for f in frames {
        if finished.is_some() || closed || hang {
            break;
        }
        let fault = f["fault"].as_str().unwrap_or("");
        if !fault.is_empty() && cond != "down" {
            apply_fault(&handle, w, fault, &mut kept).await;
            cond = fault.to_string();
        }
        let mut kind = f["frame"].as_str().unwrap().to_string();
        match kind.as_str() {
            "InitOk" => {
                let m = me.init().unwrap();
                let _ = peer_w.write_all(&encode_frame(Frame::Init { namespace: w.nsid(), message: m }).unwrap()).await;
            }
            "SyncValid" | "SyncArb" => {
                let m = match (kind.as_str(), last.take()) {
                    ("SyncValid", Some(r)) => match me.process(r, w.peers[0]).await {
                        Ok(Some(m)) => m,
                        _ => {
                            kind = "SyncArb".into();
                            arb_message(w, rng)
                        }
                    },
                    _ => {
                        kind = "SyncArb".into();
                        arb_message(w, rng)
                    }
                };
                let _ = peer_w.write_all(&encode_frame(Frame::Sync(m)).unwrap()).await;
            }
            "SyncBadId" => {
                let _ = peer_w.write_all(&bad_id_frame(w, rng, false)).await;
            }
            "Abort" => {
                let _ = peer_w.write_all(&encode_frame(Frame::Abort { reason: AbortReason::NotFound }).unwrap()).await;
            }
            "Eof" => {
                let _ = peer_w.shutdown().await;
                closed = true;
            }
            other => {
                let _ = peer_w.write_all(&raw_bad(other)).await;
                if other == "Partial" || other == "PartialPrefix" {
                    let _ = peer_w.shutdown().await;
                    closed = true;
                }
            }
        }
        let reaction = tokio::select! {
            r = &mut task => { let r = r.unwrap_or(("PANIC", 0, 0)); finished = Some(r); r.0 }
            fr = read_frame(&mut peer_r, &mut dec) => match fr {
                Ok(Some(Frame::Sync(m))) => { last = Some(m); "reply" }
                Ok(Some(_)) => "otherframe",
                _ => "closed",
            },
            _ = tokio::time::sleep(WATCHDOG) => { hang = true; "HANG" }
        };
        let mut reaction = reaction.to_string();
        if reaction == "closed" {
            let r = tokio::select! {
                r = &mut task => r.unwrap_or(("PANIC", 0, 0)),
                _ = tokio::time::sleep(WATCHDOG) => { hang = true; ("HANG", 0, 0) }
            };
            finished = Some(r);
            reaction = r.0.to_string();
        }
        steps.push(json!({"frame":kind,"cond":cond,"reaction":reaction}));
    }
    let res = finished.map(|f| f.0).unwrap_or("HANG");
    let alive = if kept.is_none() { handle.shutdown().await.is_ok() } else { true };
    json!({"ev":"Alice","start":startcond,"steps":steps,"res":res,"hang":hang,"alive":alive})
}

/// Real initiator against real acceptor through a frame-level proxy with fault / cut injection.
pub async fn pair_case(w: &World, rng: &mut Rng, script: &Value) -> Value {
    iroh_docs::verif::set_clock(1000);
    let (sa, _) = mk_store(w, rng).await;
    let (sb, before_b) = mk_store(w, rng).await;
    let ha = SyncHandle::spawn(sa, None, "alice".into());
    let hb = SyncHandle::spawn(sb, None, "bob".into());
    let _ = ha.open(w.nsid(), OpenOpts::default().sync()).await;
    let _ = hb.open(w.nsid(), OpenOpts::default().sync()).await;
    let (mut kept_a, mut kept_b): (Option<Store>, Option<Store>) = (None, None);
    let accept = script["accept"].as_str().unwrap_or("Allow").to_string();
    let (a_io, pa_io) = tokio::io::duplex(1 << 22);
    let (b_io, pb_io) = tokio::io::duplex(1 << 22);
    let (mut a_r, mut a_w) = tokio::io::split(a_io);
    let (b_r, b_w) = tokio::io::split(b_io);
    let (mut pa_r, mut pa_w) = tokio::io::split(pa_io);
    let (mut pb_r, mut pb_w) = tokio::io::split(pb_io);
    let ns = w.nsid();
    let (pka, pkb) = (peer_key(w, 0), peer_key(w, 1));
    let ha2 = ha.clone();
    let ta = tokio::spawn(async move {
        match alice(&mut a_w, &mut a_r, &ha2, ns, pkb).await {
            Ok(o) => ("ok", o.num_recv, o.num_sent),
            Err(iroh_docs::net::ConnectError::RemoteAbort(_)) => ("abort", 0, 0),
            Err(_) => ("err", 0, 0),
        }
    });
    let hb2 = hb.clone();
    let acc = accept.clone();
    let tb = tokio::spawn(async move {
        let mut st = VerifBobState::new(pka);
        let res = st
            .run(b_w, b_r, hb2, move |_n, _p| {
                let acc = acc.clone();
                async move {
                    if acc == "Allow" { AcceptOutcome::Allow } else { AcceptOutcome::Reject(AbortReason::AlreadySyncing) }
                }
            })
            .await;
        let cls = match &res {
            Ok(_) => "ok",
            Err(iroh_docs::net::AcceptError::Abort { .. }) => "abort",
            Err(_) => "err",
        };
        let out = std::panic::catch_unwind(std::panic::AssertUnwindSafe(move || st.into_outcome()));
        match out {
            Ok(o) => (cls, true, o.num_recv, o.num_sent),
            Err(_) => (cls, false, 0, 0),
        }
    });
    // proxy: forward frame k from A to B / B to A; before forwarding message `at` apply the fault / cut
    let at = script["at"].as_u64().unwrap_or(99) as usize;
    let what = script["what"].as_str().unwrap_or("").to_string();
    let side = script["side"].as_str().unwrap_or("B").to_string();
    let proxy = async {
        let mut k = 0usize;
        let mut from_a = true;
        let (mut da, mut db) = (StreamDecoder::default(), StreamDecoder::default());
        loop {
            k += 1;
            if k == at {
                match what.as_str() {
                    "cut" => {
                        let _ = pa_w.shutdown().await;
                        let _ = pb_w.shutdown().await;
                        return k;
                    }
                    "" => {}
                    f => {
                        if side == "A" {
                            apply_fault(&ha, w, f, &mut kept_a).await
                        } else {
                            apply_fault(&hb, w, f, &mut kept_b).await
                        }
                    }
                }
            }
            let fr = if from_a { read_frame(&mut pa_r, &mut da).await } else { read_frame(&mut pb_r, &mut db).await };
            match fr {
                Ok(Some(f)) => {
                    let bytes = encode_frame(f).unwrap();
                    if k == at && what == "halfcut" {
                        // deliver half of the frame, then close both directions
                        let out = if from_a { &mut pb_w } else { &mut pa_w };
                        let _ = out.write_all(&bytes[..bytes.len() / 2]).await;
                        let _ = pa_w.shutdown().await;
                        let _ = pb_w.shutdown().await;
                        return k;
                    }
                    let out = if from_a { &mut pb_w } else { &mut pa_w };
                    let _ = out.write_all(&bytes).await;
                }
                _ => {
                    // one side closed its writer: propagate the close to the other side
                    let _ = pa_w.shutdown().await;
                    let _ = pb_w.shutdown().await;
                    return k;
                }
            }
            from_a = !from_a;
        }
    };
    let joined = async {
        let (k, ra, rb) = tokio::join!(proxy, ta, tb);
        (k, ra.unwrap_or(("PANIC", 0, 0)), rb.unwrap_or(("PANIC", true, 0, 0)))
    };
    let out = tokio::time::timeout(WATCHDOG, joined).await;
    let (hang, k, ra, rb) = match out {
        Ok((k, ra, rb)) => (false, k, ra, rb),
        Err(_) => (true, 0, ("HANG", 0, 0), ("HANG", true, 0, 0)),
    };
    let mut same = false;
    let mut changed_b = false;
    if !hang {
        if kept_a.is_none() {
            kept_a = ha.shutdown().await.ok();
        }
        if kept_b.is_none() {
            kept_b = hb.shutdown().await.ok();
        }
        if let (Some(a), Some(b)) = (kept_a.as_mut(), kept_b.as_mut()) {
            let ca = w.contents(a, w.nsid());
            let cb = w.contents(b, w.nsid());
            same = ca == cb;
            changed_b = cb != before_b;
        }
    }
    json!({"ev":"Pair","accept":accept,"at":at,"what":what,"side":side,"msgs":k,
           "resA":ra.0,"recvA":ra.1,"sentA":ra.2,"resB":rb.0,"outcomeB": if rb.1 {"ok"} else {"PANIC"},
           "recvB":rb.2,"sentB":rb.3,"same":same,"changedB":changed_b,"hang":hang})
}

pub fn gen_scripts(rng: &mut Rng, n: usize) -> Vec<Value> {
    let mut out = vec![];
    for i in 0..n {
        let kind = match i % 3 {
            0 => "bob",
            1 => "alice",
            _ => "pair",
        };
        let sc = match kind {
            "bob" => {
                let len = 1 + rng.below(4);
                // most scripts start with a valid Init so that later frames are reached
                let mut frames = vec![];
                for j in 0..len {
                    let f = if j == 0 && rng.chance(2, 3) { if rng.chance(1, 4) { "InitItems" } else { "InitOk" } } else { *rng.pick(BOB_FRAMES) };
                    // every sixth frame that asks for a reply is the last thing the peer does: it is gone (both directions of its
                    // stream dropped) before the acceptor can answer
                    let gone = matches!(f, "InitOk" | "InitItems" | "SyncValid" | "SyncArb") && rng.chance(1, 6);
                    frames.push(json!({"frame": f, "fault": *rng.pick(CONDS), "gone": gone}));
                    if gone {
                        break;
                    }
                }
                json!({"kind":"bob","accept": *rng.pick(&["Allow","Allow","Allow","RejectNotFound","RejectAlreadySyncing"]),"frames":frames})
            }
            "alice" => {
                let len = 1 + rng.below(4);
                let frames: Vec<Value> = (0..len).map(|_| json!({"frame": *rng.pick(ALICE_FRAMES), "fault": *rng.pick(CONDS)})).collect();
                json!({"kind":"alice","start": *rng.pick(&["","","","","closed","syncoff","down"]),"frames":frames})
            }
            _ => json!({"kind":"pair","accept": *rng.pick(&["Allow","Allow","Allow","Reject"]),
                        "at": 1 + rng.below(6), "what": *rng.pick(&["","","closed","syncoff","down","cut","halfcut"]),
                        "side": *rng.pick(&["A","B"])}),
        };
        out.push(sc);
    }
    out
}

pub fn run(w: &World, seed: u64, rng: &mut Rng, schedules: Vec<Value>, n: usize, trace: &mut Trace, sum: &mut Summary) {
    let rt = tokio::runtime::Builder::new_current_thread().enable_all().build().unwrap();
    let mut scripts: Vec<Value> = schedules.into_iter().map(|s| s["sc"].clone()).collect();
    scripts.extend(gen_scripts(rng, n));
    // every 6th generated case runs the public connect_and_sync / handle_connection over real local endpoints
    let nets = crate::netpair::gen(rng, n / 6);
    scripts.extend(nets);
    let mut net: Option<crate::netpair::Net> = None;
    for (i, sc) in scripts.iter().enumerate() {
        trace.emit(json!({"ev":"Reset","run":i,"seed":seed,"sc":sc,"ops":[]}));
        sum.add("histories", 1);
        sum.add("scripts", 1);
        let mut r2 = Rng::new(seed ^ (i as u64).wrapping_mul(0x9e3779b97f4a7c15));
        let ev = rt.block_on(async {
            let fut = async {
                match sc["kind"].as_str().unwrap() {
                    "bob" => bob_case(w, &mut r2, sc).await,
                    "alice" => alice_case(w, &mut r2, sc).await,
                    "net" => {
                        if net.is_none() {
                            net = crate::netpair::Net::new().await.ok();
                        }
                        match net.as_ref() {
                            Some(nt) => crate::netpair::case(nt, w, &mut r2, sc).await,
                            None => json!({"ev":"Stuck","kind":"net-setup"}),
                        }
                    }
                    _ => pair_case(w, &mut r2, sc).await,
                }
            };
            // whatever awaits inside a case: a case that does not finish is a HANG, never a stuck driver
            match tokio::time::timeout(Duration::from_secs(40), fut).await {
                Ok(ev) => ev,
                Err(_) => json!({"ev":"Stuck","kind":sc["kind"]}),
            }
        });
        trace.emit(ev);
    }
    if let Some(nt) = net.take() {
        rt.block_on(nt.close());
    }
    let _ = Capability::Read(w.nsid());
    iroh_docs::verif::set_clock(0);
}

/// number of entries a reconciliation message carries (all values of all item parts), read off its serde form
fn count_values(m: &iroh_docs::sync::ProtocolMessage) -> i64 {
    fn walk(v: &Value) -> i64 {
        match v {
            Value::Object(o) => o.iter().map(|(k, x)| if k == "values" { x.as_array().map(|a| a.len() as i64).unwrap_or(0) } else { walk(x) }).sum(),
            Value::Array(a) => a.iter().map(walk).sum(),
            _ => 0,
        }
    }
    serde_json::to_value(m).map(|v| walk(&v)).unwrap_or(0)
}
