//! Network-level session pairs (C10 / the environment assumptions of C11): the public `connect_and_sync`
//! against the public `handle_connection` over two real local QUIC endpoints, with the accept callback
//! allowing / rejecting and with local faults on either side. Logs the *shape* of both results (error
//! variant, abort reason, whether namespace and peer are reported) exactly as the live actor consumes them.

use std::time::Duration;

use iroh::{endpoint::presets, Endpoint};
use iroh_docs::{
    actor::{OpenOpts, SyncHandle},
    net::{connect_and_sync, handle_connection, AbortReason, AcceptError, AcceptOutcome, ConnectError},
    store::Store,
    ALPN,
};
use serde_json::{json, Value};

use crate::{
    session::{gen_set, Side},
    world::*,
};

const TIMEOUT: Duration = Duration::from_secs(20);

async fn store_with(w: &World, rng: &mut Rng) -> (Store, Value) {
    let mut side = Side::new(w, &Backend::Mem);
    side.fill(w, &gen_set(rng, 2, 6, 3, 5)).await;
    let st = w.contents(&mut side.store, w.nsid());
    side.store.close_replica(w.nsid());
    (side.store, st)
}

fn reason_str(r: AbortReason) -> &'static str {
    match r {
        AbortReason::NotFound => "NotFound",
        AbortReason::AlreadySyncing => "AlreadySyncing",
        AbortReason::InternalServerError => "InternalServerError",
    }
}

async fn fault(h: &SyncHandle, w: &World, f: &str) -> Option<Store> {
    match f {
        "closed" => {
            let _ = h.close(w.nsid()).await;
            None
        }
        "syncoff" => {
            let _ = h.set_sync(w.nsid(), false).await;
            None
        }
        "down" => h.shutdown().await.ok(),
        _ => None,
    }
}

pub struct Net {
    pub a: Endpoint,
    pub b: Endpoint,
}

impl Net {
    pub async fn new() -> anyhow::Result<Self> {
        let a = Endpoint::builder(presets::Minimal).alpns(vec![ALPN.to_vec()]).bind().await?;
        let b = Endpoint::builder(presets::Minimal).alpns(vec![ALPN.to_vec()]).bind().await?;
        Ok(Net { a, b })
    }
    pub async fn close(self) {
        self.a.close().await;
        self.b.close().await;
    }
}

/// sc: {accept: "Allow"|"RejectNotFound"|"RejectAlreadySyncing", fault_a: ""|..., fault_b: ""|... (applied inside the accept callback)}
pub async fn case(net: &Net, w: &World, rng: &mut Rng, sc: &Value) -> Value {
    iroh_docs::verif::set_clock(1000);
    let (sa, _) = store_with(w, rng).await;
    let (sb, before_b) = store_with(w, rng).await;
    let ha = SyncHandle::spawn(sa, None, "net-a".into());
    let hb = SyncHandle::spawn(sb, None, "net-b".into());
    let _ = ha.open(w.nsid(), OpenOpts::default().sync()).await;
    let _ = hb.open(w.nsid(), OpenOpts::default().sync()).await;
    let accept = sc["accept"].as_str().unwrap_or("Allow").to_string();
    let fault_a = sc["fault_a"].as_str().unwrap_or("").to_string();
    let fault_b = sc["fault_b"].as_str().unwrap_or("").to_string();
    let mut kept_a = if fault_a.is_empty() { None } else { fault(&ha, w, &fault_a).await };
    let kept_b = std::sync::Arc::new(std::sync::Mutex::new(None::<Store>));

    let ns = w.nsid();
    let b_ep = net.b.clone();
    let hb2 = hb.clone();
    let kb = kept_b.clone();
    let (acc, fb) = (accept.clone(), fault_b.clone());
    // World is not Send-friendly to clone: the callback only needs the namespace id
    let b_task = tokio::spawn(async move {
        let incoming = match tokio::time::timeout(TIMEOUT, b_ep.accept()).await {
            Ok(Some(i)) => i,
            _ => return Err("noconn".to_string()),
        };
        let conn = match incoming.await {
            Ok(c) => c,
            Err(_) => return Err("noconn".to_string()),
        };
        let cb_h = hb2.clone();
        let res = handle_connection(
            hb2,
            conn,
            move |namespace, _peer| {
                let cb_h = cb_h.clone();
                let (acc, fb, kb) = (acc.clone(), fb.clone(), kb.clone());
                async move {
                    // a local fault on the accepting side between the accept decision and the first message
                    match fb.as_str() {
                        "closed" => {
                            let _ = cb_h.close(namespace).await;
                        }
                        "syncoff" => {
                            let _ = cb_h.set_sync(namespace, false).await;
                        }
                        "down" => {
                            if let Ok(s) = cb_h.shutdown().await {
                                *kb.lock().unwrap() = Some(s);
                            }
                        }
                        _ => {}
                    }
                    match acc.as_str() {
                        "Allow" => AcceptOutcome::Allow,
                        "RejectNotFound" => AcceptOutcome::Reject(AbortReason::NotFound),
                        _ => AcceptOutcome::Reject(AbortReason::AlreadySyncing),
                    }
                }
            },
            None,
        )
        .await;
        Ok(res)
    });

    let a_id = net.a.id();
    let b_id = net.b.id();
    let a_res = tokio::time::timeout(TIMEOUT, connect_and_sync(&net.a, &ha, ns, net.b.addr(), None)).await;
    let b_res = tokio::time::timeout(TIMEOUT, b_task).await;

    let mut hang = false;
    let mut reason_a = "";
    let mut reason_b = "";
    let (res_a, ok_a) = match a_res {
        Err(_) => {
            hang = true;
            ("HANG".to_string(), json!({}))
        }
        Ok(Ok(f)) => (
            "ok".to_string(),
            json!({"ns": f.namespace == ns, "peer": f.peer == b_id, "recv": f.outcome.num_recv, "sent": f.outcome.num_sent}),
        ),
        Ok(Err(e)) => (
            match e {
                ConnectError::Connect { .. } => "Connect".to_string(),
                ConnectError::RemoteAbort(r) => {
                    reason_a = reason_str(r);
                    "RemoteAbort".to_string()
                }
                ConnectError::Sync { .. } => "Sync".to_string(),
                ConnectError::Close { .. } => "Close".to_string(),
            },
            json!({}),
        ),
    };
    let (res_b, info_b) = match b_res {
        Err(_) => {
            hang = true;
            ("HANG".to_string(), json!({}))
        }
        Ok(Err(_)) => ("PANIC".to_string(), json!({})),
        Ok(Ok(Err(s))) => (s, json!({})),
        Ok(Ok(Ok(Ok(f)))) => (
            "ok".to_string(),
            json!({"ns": f.namespace == ns, "peer": f.peer == a_id, "recv": f.outcome.num_recv, "sent": f.outcome.num_sent}),
        ),
        Ok(Ok(Ok(Err(e)))) => {
            let nsk = e.namespace().map(|n| n == ns);
            let pk = e.peer().map(|p| p == a_id);
            let cls = match &e {
                AcceptError::Connect { .. } => "Connect".to_string(),
                AcceptError::Open { .. } => "Open".to_string(),
                AcceptError::Abort { reason, .. } => {
                    reason_b = reason_str(*reason);
                    "Abort".to_string()
                }
                AcceptError::Sync { .. } => "Sync".to_string(),
                AcceptError::Close { .. } => "Close".to_string(),
            };
            (cls, json!({"ns": nsk.unwrap_or(false), "nsknown": nsk.is_some(), "peer": pk.unwrap_or(false)}))
        }
    };
    // stores afterwards
    let mut same = false;
    let mut changed_b = false;
    if !hang {
        if kept_a.is_none() {
            kept_a = ha.shutdown().await.ok();
        }
        let mut kb = kept_b.lock().unwrap().take();
        if kb.is_none() {
            kb = hb.shutdown().await.ok();
        }
        if let (Some(a), Some(b)) = (kept_a.as_mut(), kb.as_mut()) {
            let ca = w.contents(a, ns);
            let cb = w.contents(b, ns);
            same = ca == cb;
            changed_b = cb != before_b;
        }
    }
    json!({"ev":"Net","accept":accept,"fault_a":fault_a,"fault_b":fault_b,"resA":res_a,"reasonA":reason_a,"okA":ok_a,"resB":res_b,"reasonB":reason_b,"infoB":info_b,
           "same":same,"changedB":changed_b,"hang":hang})
}

pub fn gen(rng: &mut Rng, n: usize) -> Vec<Value> {
    (0..n)
        .map(|i| {
            let accept = *rng.pick(&["Allow", "Allow", "Allow", "RejectNotFound", "RejectAlreadySyncing"]);
            let (fa, fb) = match i % 5 {
                0 | 1 => ("", ""),
                2 => ("", *rng.pick(&["closed", "syncoff", "down"])),
                3 => (*rng.pick(&["closed", "syncoff", "down"]), ""),
                _ => ("", ""),
            };
            json!({"kind":"net","accept":accept,"fault_a":fa,"fault_b":fb})
        })
        .collect()
}
