//! Query driver (C05): builds replica states through real histories (so that the by-key index holds
//! stale ids of pruned entries), then issues the product of query dimensions and point lookups.
use iroh_docs::store::{Query, SortBy, SortDirection};
use serde_json::{json, Value};

use crate::{replica::*, world::*};

fn build_query(w: &World, q: &Value) -> Query {
    let dir = if q["dir"] == "asc" { SortDirection::Asc } else { SortDirection::Desc };
    let key = key_of(&q["key"]);
    macro_rules! common {
        ($b:expr) => {{
            let mut b = $b;
            if q["a"].as_i64().unwrap() != 0 {
                // an author rank beyond the table: an author that wrote nothing
                let a = q["a"].as_i64().unwrap();
                let id = if (a as usize) <= w.authors.len() { w.author(a).id() } else { w.stranger.id() };
                b = b.author(id);
            }
            b = match q["kf"].as_str().unwrap() {
                "exact" => b.key_exact(&key),
                "prefix" => b.key_prefix(&key),
                _ => b,
            };
            if q["ie"].as_bool().unwrap() {
                b = b.include_empty();
            }
            if q["off"].as_u64().unwrap() > 0 {
                b = b.offset(q["off"].as_u64().unwrap());
            }
            if q["lim"].as_i64().unwrap() >= 0 {
                b = b.limit(q["lim"].as_i64().unwrap() as u64);
            }
            b
        }};
    }
    if q["kind"] == "flat" {
        let sort = if q["sort"] == "ak" { SortBy::AuthorKey } else { SortBy::KeyAuthor };
        common!(Query::all()).sort_by(sort, dir).build()
    } else {
        common!(Query::single_latest_per_key()).sort_direction(dir).build()
    }
}

pub fn all_queries(n_auth: i64, keys: &[&[u8]]) -> Vec<Value> {
    let mut out = vec![];
    let mut kfs: Vec<(String, Vec<u8>)> = vec![("any".into(), vec![])];
    for k in keys {
        kfs.push(("exact".into(), k.to_vec()));
        kfs.push(("prefix".into(), k.to_vec()));
    }
    for kind in ["flat", "latest"] {
        for a in 0..=n_auth {
            for (kf, key) in &kfs {
                for sort in if kind == "flat" { vec!["ak", "ka"] } else { vec!["ka"] } {
                    for dir in ["asc", "desc"] {
                        for ie in [false, true] {
                            for off in [0u64, 1, 2, 1000] {
                                for lim in [-1i64, 0, 1, 2, 1000] {
                                    out.push(json!({"kind":kind,"a":a,"kf":kf,"key":key_json(key),"sort":sort,
                                                    "dir":dir,"ie":ie,"off":off,"lim":lim}));
                                }
                            }
                        }
                    }
                }
            }
        }
    }
    out
}

pub fn run(w: &World, seed: u64, rng: &mut Rng, n_states: usize, sample: usize, dir: &std::path::Path,
           trace: &mut Trace, sum: &mut Summary) {
    let rt = tokio::runtime::Builder::new_current_thread().enable_all().build().unwrap();
    for i in 0..n_states {
        let small = i % 2 == 0;
        let g = GenCfg {
            n_auth: if small { 2 } else { 3 },
            n_keys: if small { 5 } else { KEYS.len() },
            max_ts: if small { 2 } else { 4 },   // few timestamps => many ties across authors
            len: if small { 10 } else { 40 },
            invalid: false, subs: false, msgs: false, admin: false, ranges: false,
        };
        let ops = gen_history(rng, &g);
        let file = i % 3 == 0;
        let backend = if file {
            let p = dir.join(format!("query-{i}.redb"));
            let _ = std::fs::remove_file(&p);
            Backend::File(p)
        } else {
            Backend::Mem
        };
        let mut run = Run::new(w, backend);
        trace.emit(json!({"ev":"Reset","run":i,"seed":seed,"ops":ops}));
        sum.add("histories", 1);
        for op in &ops {
            rt.block_on(run.step(op));
        }
        let ns = w.nsid();
        let store = run.store.as_mut().unwrap();
        let st = w.contents(store, ns);
        // queries: full product on the first states, a seeded sample afterwards
        let mut keyv: Vec<Vec<u8>> = KEYS[..g.n_keys.min(7)].iter().map(|k| k.to_vec()).collect();
        for j in 0..3 {
            // long / random keys of this history's pool (and thereby prefixes of stored keys)
            keyv.push(key_at(g.n_keys + j, g.n_keys));
        }
        let keys: Vec<&[u8]> = keyv.iter().map(|k| &k[..]).collect();
        let mut qs = all_queries(g.n_auth + 1, &keys);
        if i >= 2 && qs.len() > sample {
            for j in 0..sample {
                let k = j + rng.below(qs.len() - j);
                qs.swap(j, k);
            }
            qs.truncate(sample);
        }
        for chunk in qs.chunks(400) {
            let mut logged = vec![];
            for q in chunk {
                let query = build_query(w, q);
                let res: Value = match store.get_many(ns, query) {
                    Err(_) => json!("ERR"),
                    Ok(it) => Value::Array(it.map(|e| match e { Ok(e) => w.proj_entry(&e), Err(_) => json!("ERR") }).collect()),
                };
                let mut q = q.clone();
                q["res"] = res;
                logged.push(q);
                sum.add("queries", 1);
            }
            trace.emit(json!({"ev":"Q","st":st,"qs":logged}));
        }
        // point lookups for every (author, key) of the table
        let mut xs = vec![];
        for a in 1..=g.n_auth {
            for ki in 0..pool_len(g.n_keys) {
                let k = &key_at(ki, g.n_keys);
                for ie in [false, true] {
                    let res = match store.get_exact(ns, w.author(a).id(), k, ie) {
                        Ok(Some(e)) => json!([w.proj_entry(&e)]),
                        Ok(None) => json!([]),
                        Err(_) => json!("ERR"),
                    };
                    xs.push(json!({"a":a,"k":key_json(k),"ie":ie,"res":res}));
                    sum.add("lookups", 1);
                }
            }
        }
        trace.emit(json!({"ev":"X","st":st,"xs":xs}));
        // afterlife of the state: queries must keep following the replica when writes go on after the first queries -
        // a write that is NOT followed by an observation, then a call that commits by another road than a query
        // (a listing, the hash list, a point lookup) or nothing, then queries and point lookups again
        let mut st_prev = st.clone();
        for round in 0..3u64 {
            let now = 100 + round;
            iroh_docs::verif::set_clock(now);
            let a = 1 + rng.below(g.n_auth as usize) as i64;
            let k = pick_key(rng, g.n_keys);
            let del = rng.chance(1, 4);
            let (res, e) = {
                let store = run.store.as_mut().unwrap();
                let mut rep = iroh_docs::verif::replica(store, run.info.as_mut().unwrap());
                let r = rt.block_on(async {
                    if del { rep.delete_prefix(&k, w.author(a)).await } else { rep.insert(&k, w.author(a), w.hash(1), 1).await }
                });
                (if r.is_ok() { "ok" } else { "refused" },
                 json!({"a":a,"k":key_json(&k),"ts":now,"h": if del {0} else {1},"len": if del {0} else {1}}))
            };
            let store = run.store.as_mut().unwrap();
            let between = *rng.pick(&["none", "list_authors", "list_namespaces", "content_hashes", "get_exact"]);
            match between {
                "list_authors" => { let _ = store.list_authors().map(|it| it.count()); }
                "list_namespaces" => { let _ = store.list_namespaces().map(|it| it.count()); }
                "content_hashes" => { let _ = store.content_hashes().map(|it| it.count()); }
                "get_exact" => { let _ = store.get_exact(ns, w.author(1).id(), &k, true); }
                _ => {}
            }
            let st2 = w.contents(store, ns);
            trace.emit(json!({"ev":"W","st":st_prev,"e":e,"res":res,"between":between,"st2":st2}));
            let mut xs = vec![];
            for a in 1..=g.n_auth {
                for ki in 0..pool_len(g.n_keys) {
                    let k = &key_at(ki, g.n_keys);
                    let res = match store.get_exact(ns, w.author(a).id(), k, true) {
                        Ok(Some(e)) => json!([w.proj_entry(&e)]),
                        Ok(None) => json!([]),
                        Err(_) => json!("ERR"),
                    };
                    xs.push(json!({"a":a,"k":key_json(k),"ie":true,"res":res}));
                    sum.add("lookups", 1);
                }
            }
            trace.emit(json!({"ev":"X","st":st2,"xs":xs}));
            let mut logged = vec![];
            for _ in 0..40 {
                let q = qs[rng.below(qs.len())].clone();
                let query = build_query(w, &q);
                let res: Value = match store.get_many(ns, query) {
                    Err(_) => json!("ERR"),
                    Ok(it) => Value::Array(it.map(|e| match e { Ok(e) => w.proj_entry(&e), Err(_) => json!("ERR") }).collect()),
                };
                let mut q = q;
                q["res"] = res;
                logged.push(q);
                sum.add("queries", 1);
            }
            trace.emit(json!({"ev":"Q","st":st2,"qs":logged}));
            sum.add("afterlife_rounds", 1);
            st_prev = st2;
        }
        drop(run);
        if file {
            let _ = std::fs::remove_file(dir.join(format!("query-{i}.redb")));
        }
    }
    iroh_docs::verif::set_clock(0);
}
