//! Content-download bookkeeping driver (extension X02: `Downloads.tla` / `DownloadsTrace.tla`): one real
//! `LiveActor` with two documents in its sync set; its handlers for replica events, neighbour announcements,
//! download completions and finished syncs are called directly (hooks H6 / H8). Download tasks are part of
//! the environment: the driver decides when and how the task started for a (document, hash) reports, and
//! puts the content into the blob store before reporting success. After every step the queued / missing
//! hashes and the events seen by one subscriber per document are logged.

use iroh::{endpoint::presets, Endpoint, PublicKey, SecretKey};
use iroh_blobs::Hash;
use iroh_docs::{
    actor::SyncHandle,
    engine::verif::{LiveActor, LiveActorEvent, SyncReason},
    net::SyncFinished,
    store::Store,
    Capability, ContentStatus, NamespaceSecret, SyncOutcome,
};
use iroh_gossip::net::Gossip;
use serde_json::{json, Value};
use tokio::sync::mpsc;

use crate::world::*;

fn content_for(w: &World, rank: i64) -> Vec<u8> {
    // World hashes are Hash::new(i.to_le_bytes())
    let want = w.hash(rank);
    let mut i = 0u64;
    loop {
        if Hash::new(i.to_le_bytes()) == want {
            return i.to_le_bytes().to_vec();
        }
        i += 1;
    }
}

pub fn run(w: &World, seed: u64, rng: &mut Rng, n: usize, trace: &mut Trace, sum: &mut Summary) {
    let rt = tokio::runtime::Builder::new_multi_thread().worker_threads(2).enable_all().build().unwrap();
    let endpoint = match rt.block_on(Endpoint::bind(presets::Minimal)) {
        Ok(e) => e,
        Err(_) => {
            trace.emit(json!({"ev":"Reset","run":0,"seed":seed,"ops":[]}));
            trace.emit(json!({"ev":"Stuck","kind":"downloads-endpoint"}));
            return;
        }
    };
    let docs: Vec<NamespaceSecret> = vec![w.ns.clone(), w.other_ns[0].clone()];
    let hashes = [1i64, 2, 3];
    let peer: PublicKey = SecretKey::from_bytes(&w.peers[0]).public();
    for i in 0..n {
        let evs: Vec<Value> = rt.block_on(async {
            let mut out = vec![json!({"ev":"Reset","run":i,"seed":seed,"ops":[]})];
            let gossip = Gossip::builder().spawn(endpoint.clone());
            let blobs = iroh_blobs::store::mem::MemStore::new();
            let blobs_api: iroh_blobs::api::Store = (*blobs).clone();
            let downloader = blobs_api.downloader(&endpoint);
            let mut store = Store::memory();
            for ns in docs.iter() {
                let _ = store.import_namespace(Capability::Write(ns.clone()));
            }
            let sync = SyncHandle::spawn(store, None, "dl".into());
            let (tx, rx) = mpsc::channel(64);
            let mut actor = match LiveActor::new(sync.clone(), endpoint.clone(), gossip, blobs_api.clone(), downloader, rx, tx.clone(),
                                                 sync.metrics().clone()) {
                Ok(a) => a,
                Err(_) => return vec![out.remove(0), json!({"ev":"Stuck","kind":"downloads-actor"})],
            };
            actor.verif_capture_dials();
            let mut rxs = vec![];
            for ns in docs.iter() {
                let _ = sync.open(ns.id(), iroh_docs::actor::OpenOpts::default().sync()).await;
                actor.verif_set_syncing(ns.id());
                let (s, r) = async_channel::unbounded::<LiveActorEvent>();
                actor.verif_subscribe(ns.id(), s);
                rxs.push(r);
            }
            let mut tasks: Vec<(usize, i64)> = vec![];
            let mut ts = 10u64;
            let steps = 6 + rng.below(16);
            for _ in 0..steps {
                let before: Vec<Hash> = actor.verif_downloads().0.iter().map(|x| x.0).collect();
                let d = 1 + rng.below(2);
                let ns = &docs[d - 1];
                let h = *rng.pick(&hashes);
                let x = rng.below(100);
                let mut ev;
                if x < 30 {
                    let dl = !rng.chance(1, 6);
                    let complete = rng.chance(2, 3);
                    ts += 1;
                    let se = w.signed_in(ns, 1, &[d as u8, h as u8], ts, h, 1);
                    let res = actor.verif_replica_event(iroh_docs::Event::RemoteInsert {
                        namespace: ns.id(),
                        entry: se,
                        from: *peer.as_bytes(),
                        should_download: dl,
                        remote_content_status: if complete { ContentStatus::Complete } else { ContentStatus::Missing },
                    }).await;
                    ev = json!({"ev":"Step","op":"RemoteInsert","ns":d,"h":h,"dl":dl,"complete":complete,"res": if res.is_ok() {"ok"} else {"err"}});
                } else if x < 42 {
                    actor.verif_neighbor_content_ready(ns.id(), peer, w.hash(h)).await;
                    ev = json!({"ev":"Step","op":"NeighborReady","ns":d,"h":h});
                } else if x < 70 {
                    if tasks.is_empty() {
                        continue;
                    }
                    let (td, th) = tasks.remove(rng.below(tasks.len()));
                    let ok = rng.chance(2, 3);
                    if ok {
                        let _ = blobs_api.add_bytes(content_for(w, th)).await;
                    }
                    actor.verif_download_ready(docs[td - 1].id(), w.hash(th), ok).await;
                    ev = json!({"ev":"Step","op":"DownloadReady","ns":td,"h":th,"ok":ok});
                } else if x < 85 {
                    // a session with `peer` finishes successfully (dial captured by the hook, then its result is handled)
                    actor.verif_dial(ns.id(), peer, SyncReason::DirectJoin);
                    let _ = actor.verif_take_dials();
                    let fin = SyncFinished { namespace: ns.id(), peer, outcome: SyncOutcome::default(), timings: Default::default() };
                    actor.verif_connect_finished(ns.id(), peer, SyncReason::DirectJoin, Ok(fin)).await;
                    ev = json!({"ev":"Step","op":"SyncFinished","ns":d});
                } else if x < 91 {
                    let _ = blobs_api.add_bytes(content_for(w, h)).await;
                    ev = json!({"ev":"Step","op":"Have","h":h});
                } else if x < 96 {
                    actor.verif_unset_syncing(&ns.id());
                    ev = json!({"ev":"Step","op":"Leave","ns":d});
                } else {
                    actor.verif_set_syncing(ns.id());
                    ev = json!({"ev":"Step","op":"Join","ns":d});
                }
                // observe
                let (queued, missing) = actor.verif_downloads();
                let mut started = vec![];
                for (qh, _) in queued.iter() {
                    if !before.contains(qh) {
                        let r = w.hash_rank(qh);
                        started.push(json!([ev["ns"], r]));
                        tasks.push((ev["ns"].as_u64().unwrap_or(1) as usize, r));
                    }
                }
                let q: Vec<Value> = queued.iter().map(|(qh, nss)| {
                    let mut v: Vec<usize> = nss.iter().map(|n| 1 + docs.iter().position(|dd| dd.id() == *n).unwrap_or(9)).collect();
                    v.sort();
                    json!({"h": w.hash_rank(qh), "docs": v})
                }).collect();
                let mut m: Vec<i64> = missing.iter().map(|x| w.hash_rank(x)).collect();
                m.sort();
                let mut seen = vec![];
                for (k, r) in rxs.iter().enumerate() {
                    let mut l = vec![];
                    while let Ok(e) = r.try_recv() {
                        match e {
                            LiveActorEvent::ContentReady { hash } => l.push(json!({"ns":k + 1,"kind":"ContentReady","h":w.hash_rank(&hash)})),
                            LiveActorEvent::PendingContentReady => l.push(json!({"ns":k + 1,"kind":"PendingContentReady","h":0})),
                            _ => {}
                        }
                    }
                    seen.push(Value::Array(l));
                }
                ev["queued"] = json!(q);
                ev["missing"] = json!(m);
                ev["started"] = json!(started);
                ev["seen"] = json!(seen);
                out.push(ev);
                sum.add("steps", 1);
            }
            drop(actor);
            let _ = sync.shutdown().await;
            out
        });
        for ev in evs {
            trace.emit(ev);
        }
        sum.add("histories", 1);
    }
    rt.block_on(endpoint.close());
}
