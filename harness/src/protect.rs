//! GC-protection handshake driver (C16, second half): a real `Engine` with a `ProtectCallbackHandler`; documents
//! are written through the engine's `SyncHandle`; the protection callback (what the blob store's garbage
//! collector calls) is invoked at various points, also after the engine has been shut down. Logs the outcome,
//! the protected set it collected and the hashes actually held (read back through queries).

use std::collections::HashSet;

use iroh::{endpoint::presets, Endpoint};
use iroh_blobs::{store::ProtectOutcome, Hash};
use iroh_docs::{
    actor::OpenOpts,
    engine::{DefaultAuthorStorage, Engine, ProtectCallbackHandler},
    store::{Query, Store},
    Capability,
};
use iroh_gossip::net::Gossip;
use serde_json::{json, Value};

use crate::{replica::KEYS, world::*};

async fn held(w: &World, engine: &Engine, docs: &[&iroh_docs::NamespaceSecret]) -> Option<Vec<i64>> {
    let mut out: HashSet<i64> = HashSet::new();
    for ns in docs {
        let (tx, mut rx) = irpc::channel::mpsc::channel(4096);
        engine.sync.get_many(ns.id(), Query::all().include_empty().build(), tx).await.ok()?;
        loop {
            match rx.recv().await {
                Ok(Some(Ok(e))) => {
                    out.insert(w.hash_rank(&e.content_hash()));
                }
                Ok(Some(Err(_))) => return None,
                _ => break,
            }
        }
    }
    let mut v: Vec<i64> = out.into_iter().collect();
    v.sort();
    Some(v)
}

pub fn run(w: &World, seed: u64, rng: &mut Rng, n: usize, trace: &mut Trace, sum: &mut Summary) {
    let rt = tokio::runtime::Builder::new_multi_thread().worker_threads(2).enable_all().build().unwrap();
    for i in 0..n {
        trace.emit(json!({"ev":"Reset","run":i,"seed":seed,"ops":[]}));
        sum.add("histories", 1);
        let evs: Vec<Value> = rt.block_on(async {
            let mut evs = vec![];
            let endpoint = match Endpoint::bind(presets::Minimal).await {
                Ok(e) => e,
                Err(_) => return vec![json!({"ev":"Stuck","kind":"protect-setup"})],
            };
            let gossip = Gossip::builder().spawn(endpoint.clone());
            let blobs = iroh_blobs::store::mem::MemStore::new();
            let blobs_api: iroh_blobs::api::Store = (*blobs).clone();
            let downloader = blobs_api.downloader(&endpoint);
            let (handler, cb) = ProtectCallbackHandler::new();
            let engine = match Engine::spawn(endpoint.clone(), gossip, Store::memory(), blobs_api, downloader,
                                             DefaultAuthorStorage::Mem, Some(handler)).await {
                Ok(e) => e,
                Err(_) => return vec![json!({"ev":"Stuck","kind":"protect-engine"})],
            };
            let docs = [&w.ns, &w.other_ns[0]];
            for ns in docs.iter() {
                let _ = engine.sync.import_namespace(Capability::Write((*ns).clone())).await;
                let _ = engine.sync.open(ns.id(), OpenOpts::default()).await;
            }
            for a in 1..=2 {
                let _ = engine.sync.import_author(w.author(a).clone()).await;
            }
            iroh_docs::verif::set_clock(1000);
            let steps = 3 + rng.below(12);
            for s in 0..steps {
                // a write, a prefix deletion, or a GC round
                let x = rng.below(10);
                let ns = docs[rng.below(2)];
                if x < 6 {
                    iroh_docs::verif::set_clock(1000 + s as u64);
                    let h = w.hash(*rng.pick(&[-2i64, -1, 1, 2, 3]));
                    let _ = engine.sync.insert_local(ns.id(), w.author(1 + rng.below(2) as i64).id(),
                                                     KEYS[rng.below(6)].to_vec().into(), h, 1).await;
                } else if x < 8 {
                    iroh_docs::verif::set_clock(1000 + s as u64);
                    let _ = engine.sync.delete_prefix(ns.id(), w.author(1 + rng.below(2) as i64).id(), KEYS[rng.below(6)].to_vec().into()).await;
                } else {
                    let mut live: HashSet<Hash> = HashSet::new();
                    let out = tokio::time::timeout(std::time::Duration::from_secs(10), cb(&mut live)).await;
                    let mut lv: Vec<i64> = live.iter().map(|h| w.hash_rank(h)).collect();
                    lv.sort();
                    let h = held(w, &engine, &docs).await;
                    evs.push(json!({"ev":"Gc","down":false,
                        "outcome": match out { Ok(ProtectOutcome::Continue) => "Continue", Ok(ProtectOutcome::Abort) => "Abort", Err(_) => "HANG" },
                        "live": lv, "held": h.unwrap_or_default()}));
                    sum.add("gc_rounds", 1);
                }
            }
            // a final round while everything is up, then after the docs engine has been shut down
            let mut live: HashSet<Hash> = HashSet::new();
            let out = tokio::time::timeout(std::time::Duration::from_secs(10), cb(&mut live)).await;
            let mut lv: Vec<i64> = live.iter().map(|h| w.hash_rank(h)).collect();
            lv.sort();
            let h = held(w, &engine, &docs).await;
            evs.push(json!({"ev":"Gc","down":false,
                "outcome": match out { Ok(ProtectOutcome::Continue) => "Continue", Ok(ProtectOutcome::Abort) => "Abort", Err(_) => "HANG" },
                "live": lv, "held": h.clone().unwrap_or_default()}));
            let _ = engine.shutdown().await;
            let mut live: HashSet<Hash> = HashSet::new();
            let out = tokio::time::timeout(std::time::Duration::from_secs(10), cb(&mut live)).await;
            let mut lv: Vec<i64> = live.iter().map(|h| w.hash_rank(h)).collect();
            lv.sort();
            evs.push(json!({"ev":"Gc","down":true,
                "outcome": match out { Ok(ProtectOutcome::Continue) => "Continue", Ok(ProtectOutcome::Abort) => "Abort", Err(_) => "HANG" },
                "live": lv, "held": h.unwrap_or_default()}));
            sum.add("gc_rounds", 2);
            drop(engine);
            endpoint.close().await;
            evs
        });
        for ev in evs {
            trace.emit(ev);
        }
    }
    iroh_docs::verif::set_clock(0);
}
