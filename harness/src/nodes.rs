//! System-level driver (extension X03: `NodesTrace.tla`): two or three complete nodes - endpoint, router, gossip,
//! blobs, docs engine (live actor, store actor, RPC actor) - on the real local network. One node creates a
//! document and shares a write ticket, the others import it and start syncing; all nodes write and delete
//! concurrently through the client API (clock skewed by the hook); after every write the contents of every node
//! are read through the API; at the end the driver waits until all nodes show the same contents for a while.
//! Nothing below the API is hooked (except the clock).

use std::time::Duration;

use futures_lite::StreamExt;
use iroh::{endpoint::presets, protocol::Router, Endpoint};
use iroh_docs::{
    api::{
        protocol::{AddrInfoOptions, ShareMode},
        Doc,
    },
    protocol::Docs,
    store::Query,
};
use iroh_gossip::net::Gossip;
use serde_json::{json, Value};

use crate::{replica::KEYS, world::*};

const T: Duration = Duration::from_secs(20);

struct Node {
    router: Router,
    docs: Docs,
    gossip: Gossip,
}

async fn node() -> anyhow::Result<Node> {
    let endpoint = Endpoint::bind(presets::Minimal).await?;
    let gossip = Gossip::builder().spawn(endpoint.clone());
    let blobs = iroh_blobs::store::mem::MemStore::new();
    let blobs_api: iroh_blobs::api::Store = (*blobs).clone();
    let docs = Docs::memory().spawn(endpoint.clone(), blobs_api.clone(), gossip.clone()).await?;
    let router = Router::builder(endpoint)
        .accept(iroh_blobs::ALPN, iroh_blobs::BlobsProtocol::new(&blobs_api, None))
        .accept(iroh_docs::ALPN, docs.clone())
        .accept(iroh_gossip::ALPN, gossip.clone())
        .spawn();
    Ok(Node { router, docs, gossip })
}

async fn contents(w: &World, doc: &Doc) -> Option<Value> {
    let st = tokio::time::timeout(T, doc.get_many(Query::all().include_empty().build())).await.ok()?.ok()?;
    tokio::pin!(st);
    let mut out = vec![];
    loop {
        match tokio::time::timeout(T, st.next()).await {
            Err(_) => return None,
            Ok(None) => break,
            Ok(Some(Err(_))) => return None,
            Ok(Some(Ok(e))) => out.push(json!({"a": w.author_rank(&e.author().to_bytes()), "k": key_json(e.key()), "ts": e.timestamp(),
                                               "h": w.hash_rank(&e.content_hash()), "len": e.content_len()})),
        }
    }
    Some(Value::Array(out))
}

async fn all_contents(w: &World, handles: &[Doc]) -> Option<Vec<Value>> {
    let mut v = vec![];
    for d in handles {
        v.push(contents(w, d).await?);
    }
    Some(v)
}

pub fn run(w: &World, seed: u64, rng: &mut Rng, n: usize, garbage_mode: u64, trace: &mut Trace, sum: &mut Summary) {
    let garbage = garbage_mode > 0;
    let rt = tokio::runtime::Builder::new_multi_thread().worker_threads(4).enable_all().build().unwrap();
    for i in 0..n {
        let evs: Vec<Value> = rt.block_on(async {
            let mut out = vec![json!({"ev":"Reset","run":i,"seed":seed,"ops":[]})];
            let nn = 2 + rng.below(2);
            let mut nodes = vec![];
            for _ in 0..nn {
                match node().await {
                    Ok(n) => nodes.push(n),
                    Err(_) => {
                        out.push(json!({"ev":"Stuck","kind":"nodes-spawn"}));
                        return out;
                    }
                }
            }
            for nd in nodes.iter() {
                for a in 1..=2 {
                    let _ = nd.docs.author_import(w.author(a).clone()).await;
                }
            }
            iroh_docs::verif::set_clock(1000);
            // node 1 creates and shares, the others join through the ticket
            let mut handles: Vec<Doc> = vec![];
            let first = match tokio::time::timeout(T, nodes[0].docs.create()).await {
                Ok(Ok(d)) => d,
                _ => {
                    out.push(json!({"ev":"Stuck","kind":"nodes-create"}));
                    return out;
                }
            };
            let ticket = match tokio::time::timeout(T, first.share(ShareMode::Write, AddrInfoOptions::RelayAndAddresses)).await {
                Ok(Ok(t)) => t,
                _ => {
                    out.push(json!({"ev":"Stuck","kind":"nodes-share"}));
                    return out;
                }
            };
            handles.push(first);
            // sometimes node 1 already holds entries when the others join (initial sync), sometimes not
            let mut clock = 1000u64;
            let pre = rng.below(4);
            for _ in 0..pre {
                clock += 1;
                if let Some(ev) = write(w, rng, &handles, 0, &mut clock).await {
                    out.push(ev);
                }
            }
            for k in 1..nn {
                let r = tokio::time::timeout(T, nodes[k].docs.import(ticket.clone())).await;
                match r {
                    Ok(Ok(d)) => {
                        handles.push(d);
                        out.push(json!({"ev":"Joined","n":k + 1,"res":"ok"}));
                    }
                    _ => {
                        out.push(json!({"ev":"Joined","n":k + 1,"res":"err"}));
                        return out;
                    }
                }
            }
            // extension X06: a member of the gossip topic broadcasts bytes that are no `Op` (the topic id is the document id,
            // every holder of a ticket can do it); the writes after it still have to reach everybody
            let mut injected = false;
            if garbage && rng.chance(2, 3) {
                // let the topic mesh form first (a broadcast goes to the current neighbours)
                tokio::time::sleep(Duration::from_millis(600)).await;
                let k = 1 + rng.below(nn - 1);
                let peers: Vec<iroh::EndpointId> = nodes.iter().enumerate().filter(|(i, _)| *i != k).map(|(_, n)| n.router.endpoint().id()).collect();
                let topic = iroh_gossip::proto::TopicId::from_bytes(handles[0].id().to_bytes());
                let sent = match tokio::time::timeout(T, nodes[k].gossip.subscribe(topic, peers)).await {
                    Ok(Ok(sub)) => {
                        let (sender, _recv) = sub.split();
                        let bytes: Vec<u8> = (0..1 + rng.below(40)).map(|_| 0xF0 | rng.below(16) as u8).collect();
                        // mode 2 is the control experiment: the same extra subscription, nothing undecodable is sent
                        let r = if garbage_mode == 2 { true } else { sender.broadcast(bytes.into()).await.is_ok() };
                        tokio::time::sleep(Duration::from_millis(300)).await;
                        r
                    }
                    _ => false,
                };
                injected = sent && garbage_mode == 1;
                out.push(json!({"ev": if garbage_mode == 1 { "Garbage" } else { "ExtraSubscription" },"n":k + 1,"sent":sent}));
            }
            let steps = 4 + rng.below(12);
            for _ in 0..steps {
                let k = rng.below(nn);
                if let Some(ev) = write(w, rng, &handles, k, &mut clock).await {
                    out.push(ev);
                }
                if rng.chance(1, 4) {
                    tokio::time::sleep(Duration::from_millis(20 * rng.below(5) as u64)).await;
                }
                sum.add("writes", 1);
            }
            // wait for quiescence: all nodes equal and unchanged for 400 ms, at most 60 s
            let start = std::time::Instant::now();
            let mut last: Option<Vec<Value>> = None;
            let mut stable_since = std::time::Instant::now();
            let mut converged = false;
            let mut sts = vec![];
            while start.elapsed() < Duration::from_secs(if injected { 8 } else { 60 }) {
                let Some(cur) = all_contents(w, &handles).await else { break };
                let equal = cur.iter().all(|c| *c == cur[0]);
                if Some(&cur) != last.as_ref() {
                    stable_since = std::time::Instant::now();
                    last = Some(cur.clone());
                }
                sts = cur;
                if equal && stable_since.elapsed() > Duration::from_millis(400) {
                    converged = true;
                    break;
                }
                tokio::time::sleep(Duration::from_millis(50)).await;
            }
            out.push(json!({"ev":"Quiet","converged":converged,"sts":sts,"waited_ms":start.elapsed().as_millis() as u64}));
            for nd in nodes {
                let _ = tokio::time::timeout(T, nd.router.shutdown()).await;
                drop(nd.docs);
            }
            out
        });
        for ev in evs {
            trace.emit(ev);
        }
        sum.add("histories", 1);
    }
    iroh_docs::verif::set_clock(0);
}

async fn write(w: &World, rng: &mut Rng, handles: &[Doc], k: usize, clock: &mut u64) -> Option<Value> {
    // skewed clocks: mostly forward, sometimes back
    if rng.chance(1, 4) {
        *clock = clock.saturating_sub(rng.below(6) as u64).max(1);
    } else {
        *clock += 1 + rng.below(3) as u64;
    }
    iroh_docs::verif::set_clock(*clock);
    let a = 1 + rng.below(2) as i64;
    let key = KEYS[rng.below(6)];
    let del = rng.chance(1, 5);
    let (h, len, res) = if del {
        let r = tokio::time::timeout(T, handles[k].del(w.author(a).id(), key.to_vec())).await;
        (0i64, 0u64, matches!(r, Ok(Ok(_))))
    } else {
        let h = *rng.pick(&[-1i64, 1, 2]);
        let r = tokio::time::timeout(T, handles[k].set_hash(w.author(a).id(), key.to_vec(), w.hash(h), 1)).await;
        (h, 1u64, matches!(r, Ok(Ok(_))))
    };
    let sts = all_contents(w, handles).await?;
    Some(json!({"ev":"Write","n":k + 1,"e":{"a":a,"k":key_json(key),"ts":*clock,"h":h,"len":len},
                "res": if res {"ok"} else {"err"},"sts":sts}))
}
