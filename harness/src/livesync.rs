//! Live-sync coordination driver (C11): two real `LiveActor`s (real `NamespaceStates`, real completion
//! handlers, real store actors) are stepped through schedules of dial decisions, request delivery / loss,
//! abort replies, independent completion of the two session ends and independent handling of the two task
//! results. A started dial is captured instead of connected (hook H6); task results are synthesised exactly
//! as `connect_and_sync` / `handle_connection` produce them. After every action the slot and resync flag of
//! both nodes are logged.

use std::sync::Arc;

use iroh::{endpoint::presets, Endpoint, PublicKey};
use iroh_docs::{
    actor::SyncHandle,
    engine::verif::{LiveActor, SyncReason},
    net::{AbortReason, AcceptError, AcceptOutcome, ConnectError, SyncFinished},
    store::Store,
    AuthorHeads, Capability, ContentStatus, NamespaceId, SyncOutcome,
};
use iroh_gossip::net::Gossip;
use serde_json::{json, Value};
use tokio::sync::mpsc;

use crate::world::*;

pub struct NodeCtx {
    pub actor: LiveActor,
    pub id: PublicKey,
    pub sync: SyncHandle,
    _endpoint: Endpoint,
    _inbox_tx: mpsc::Sender<iroh_docs::engine::verif::ToLiveActor>,
}

pub async fn mk_node(w: &World, syncing: bool) -> anyhow::Result<NodeCtx> {
    let endpoint = Endpoint::bind(presets::Minimal).await?;
    let gossip = Gossip::builder().spawn(endpoint.clone());
    let blobs = iroh_blobs::store::mem::MemStore::new();
    let blobs_api: iroh_blobs::api::Store = (*blobs).clone();
    let downloader = blobs_api.downloader(&endpoint);
    let mut store = Store::memory();
    store.import_namespace(Capability::Write(w.ns.clone()))?;
    let sync = SyncHandle::spawn(store, None, "live".into());
    let (tx, rx) = mpsc::channel(64);
    let mut actor = LiveActor::new(
        sync.clone(),
        endpoint.clone(),
        gossip,
        blobs_api,
        downloader,
        rx,
        tx.clone(),
        sync.metrics().clone(),
    )?;
    actor.verif_capture_dials();
    if syncing {
        actor.verif_set_syncing(w.nsid());
    }
    Ok(NodeCtx {
        id: endpoint.id(),
        actor,
        sync,
        _endpoint: endpoint,
        _inbox_tx: tx,
    })
}

fn reason_of(s: &str) -> SyncReason {
    match s {
        "NewNeighbor" => SyncReason::NewNeighbor,
        "SyncReport" => SyncReason::SyncReport,
        "DirectJoin" => SyncReason::DirectJoin,
        _ => SyncReason::Resync,
    }
}
fn reason_str(r: SyncReason) -> &'static str {
    match r {
        SyncReason::NewNeighbor => "NewNeighbor",
        SyncReason::SyncReport => "SyncReport",
        SyncReason::DirectJoin => "DirectJoin",
        SyncReason::Resync => "Resync",
    }
}

fn finished(ns: NamespaceId, peer: PublicKey) -> SyncFinished {
    SyncFinished {
        namespace: ns,
        peer,
        outcome: SyncOutcome::default(),
        timings: Default::default(),
    }
}

/// Driver-side record of a dial (the environment part of the model: network and the two session tasks).
#[derive(Clone, Debug)]
struct DialRec {
    from: usize,
    reason: SyncReason,
}

pub struct Pair {
    pub nodes: Vec<NodeCtx>, // index 0 = node 1 (smaller id), index 1 = node 2 (greater id)
    dials: Vec<DialRec>,
    ns: NamespaceId,
    /// per node: the hash of the content download queued by the last QueueDownload step
    queued: [Option<iroh_blobs::Hash>; 2],
    /// per node: the document was put into the sync set by the real start_sync handler (so leave has a replica to close)
    joined: [bool; 2],
    nq: u64,
    ns_secret: iroh_docs::NamespaceSecret,
    /// an encoded `Init` frame for the document (what a dialer sends first)
    init_frame: Vec<u8>,
    /// dial number -> the decline reply of that dial is lost on the way (from the schedule being replayed)
    pub abort_lost: std::collections::HashMap<usize, bool>,
    /// dials whose request was delivered / whose two task results were handled (for `in_flight`)
    delivered: std::collections::HashSet<usize>,
    c_handled: std::collections::HashSet<usize>,
    a_handled: std::collections::HashSet<usize>,
}

impl Pair {
    pub async fn new(w: &World, syncing: &[usize]) -> anyhow::Result<Self> {
        let a = mk_node(w, false).await?;
        let b = mk_node(w, false).await?;
        // node 2 is the one with the greater endpoint id (the tie-break of a simultaneous dial)
        let mut nodes = vec![a, b];
        nodes.sort_by_key(|n| *n.id.as_bytes());
        for n in syncing {
            nodes[n - 1].actor.verif_set_syncing(w.nsid());
        }
        // each node remembers the other one as a useful peer of the document (what a finished session leaves behind), and
        // keeps the document open in its store actor (start_sync reads the remembered peers through the actor)
        for n in 0..2 {
            let other = *nodes[1 - n].id.as_bytes();
            nodes[n].sync.register_useful_peer(w.nsid(), other).await?;
            nodes[n].sync.open(w.nsid(), iroh_docs::actor::OpenOpts::default().sync()).await?;
        }
        Ok(Pair { nodes, dials: vec![], ns: w.nsid(), queued: [None, None], joined: [false, false], nq: 0, ns_secret: w.ns.clone(),
                  init_frame: {
                      let m = crate::replica::build_message(w, &json!([{"t":"fp","x":[0,0,[]],"y":[0,0,[]],"fp":"impossible"}]), &|_| [0xAB; 32]).0;
                      iroh_docs::net::verif_codec::encode_frame(iroh_docs::net::verif_codec::Frame::Init { namespace: w.nsid(), message: m })?
                  },
                  abort_lost: Default::default(), delivered: Default::default(), c_handled: Default::default(), a_handled: Default::default() })
    }

    fn snapshot(&self) -> (Value, Value) {
        let mut slots = vec![];
        let mut rs = vec![];
        for i in 0..2 {
            let other = self.nodes[1 - i].id;
            let (s, r) = self.nodes[i].actor.verif_slot(&self.ns, &other).unwrap_or((0, false));
            slots.push(json!(["Idle", "Connect", "Accept"][s as usize]));
            rs.push(json!(r));
        }
        (Value::Array(slots), Value::Array(rs))
    }

    /// collect dials started by the handlers of node n (1-based) and register them
    fn collect(&mut self, n: usize) -> Vec<Value> {
        let started = self.nodes[n - 1].actor.verif_take_dials();
        let mut out = vec![];
        for (_ns, _peer, reason) in started {
            self.dials.push(DialRec { from: n, reason });
            out.push(json!({"from": n, "reason": reason_str(reason), "d": self.dials.len()}));
        }
        out
    }

    pub async fn step(&mut self, a: &Value) -> Value {
        let act = a["a"].as_str().unwrap();
        let ns = self.ns;
        let mut ev = a.clone();
        ev["ev"] = json!(act);
        let mut started = vec![];
        match act {
            "Dial" => {
                let n = a["n"].as_u64().unwrap() as usize;
                let other = self.nodes[2 - n].id;
                let reason = a["reason"].as_str().unwrap();
                if reason == "SyncReport" {
                    // through on_sync_report with a report that carries news (any head is news for an empty replica)
                    let mut h = AuthorHeads::default();
                    h.insert(iroh_docs::AuthorId::from(&[7u8; 32]), 5);
                    let bytes = h.encode(None).unwrap();
                    self.nodes[n - 1].actor.verif_sync_report(other, ns, bytes).await;
                } else {
                    self.nodes[n - 1].actor.verif_dial(ns, other, reason_of(reason));
                }
                started = self.collect(n);
            }
            "DeliverRequest" => {
                let d = a["d"].as_u64().unwrap() as usize;
                self.delivered.insert(d);
                let m = 3 - self.dials[d - 1].from;
                let from_id = self.nodes[2 - m].id;
                let out = self.nodes[m - 1].actor.accept_sync_request(ns, from_id);
                ev["obs"] = json!(match out {
                    AcceptOutcome::Allow => "Allow",
                    AcceptOutcome::Reject(AbortReason::NotFound) => "NotFound",
                    AcceptOutcome::Reject(AbortReason::AlreadySyncing) => "AlreadySyncing",
                    AcceptOutcome::Reject(AbortReason::InternalServerError) => "InternalServerError",
                });
            }
            "HandleConnectDone" => {
                let d = a["d"].as_u64().unwrap() as usize;
                self.c_handled.insert(d);
                let rec = self.dials[d - 1].clone();
                let n = rec.from;
                let other = self.nodes[2 - n].id;
                let res: Result<SyncFinished, ConnectError> = match a["res"].as_str().unwrap() {
                    "ok" => Ok(finished(ns, other)),
                    "connfail" => Err(ConnectError::Connect { error: anyhow::anyhow!("connection failed") }),
                    "AlreadySyncing" => Err(ConnectError::RemoteAbort(AbortReason::AlreadySyncing)),
                    "NotFound" => Err(ConnectError::RemoteAbort(AbortReason::NotFound)),
                    // a failed session: either in the message exchange or in the stream-closing handshake
                    _ if d % 2 == 0 => Err(ConnectError::Close { error: anyhow::anyhow!("close failed") }),
                    _ => Err(ConnectError::Sync { error: anyhow::anyhow!("sync failed") }),
                };
                self.nodes[n - 1].actor.verif_connect_finished(ns, other, rec.reason, res).await;
                started = self.collect(n);
            }
            "HandleAcceptDone" => {
                let d = a["d"].as_u64().unwrap() as usize;
                self.a_handled.insert(d);
                let m = 3 - self.dials[d - 1].from;
                let peer = self.nodes[2 - m].id;
                let res: Result<SyncFinished, AcceptError> = match a["res"].as_str().unwrap() {
                    "ok" => Ok(finished(ns, peer)),
                    // a declined request: the task result is what the REAL acceptor state machine returns when its accept
                    // callback declines - with the decline frame delivered, or (the schedule loses it) with the dialer gone
                    r @ ("AlreadySyncing" | "NotFound") => {
                        let reason = if r == "NotFound" { AbortReason::NotFound } else { AbortReason::AlreadySyncing };
                        let lost = self.abort_lost.get(&d).copied().unwrap_or(false);
                        Err(self.declined_by_real_acceptor(m, peer, reason, lost).await)
                    }
                    // a failed session. Every third one fails the way only the real acceptor can tell: the request was allowed
                    // and the node's store then fails on the opening message (replica closed under the session) - the task
                    // result is whatever the REAL `BobState` returns for that
                    _ if d % 3 == 2 => Err(self.failed_at_init_by_real_acceptor(peer).await),
                    _ if d % 2 == 1 => Err(AcceptError::Close { peer, namespace: Some(ns), error: anyhow::anyhow!("close failed") }),
                    _ => Err(AcceptError::Sync { peer, namespace: Some(ns), error: anyhow::anyhow!("sync failed") }),
                };
                self.nodes[m - 1].actor.verif_accept_finished(res).await;
                started = self.collect(m);
            }
            // the sync set changes through the real handlers of the actor loop
            "Join" => {
                let n = a["n"].as_u64().unwrap() as usize;
                // "dial": the real start_sync handler - the other node is a remembered peer of the document (registered when
                // the pair was set up), so it is dialled at once; "": a document without remembered peers (sync set only)
                if a["res"] == "dial" {
                    let r = self.nodes[n - 1].actor.verif_start_sync(ns).await;
                    self.joined[n - 1] = r.is_ok();
                    ev["obs"] = json!(if r.is_ok() { "ok" } else { "err" });
                } else {
                    self.nodes[n - 1].actor.verif_set_syncing(ns);
                }
                started = self.collect(n);
            }
            // start_sync for a document that is in the sync set already (the real handler; the other node is a remembered peer)
            "StartSync" => {
                let n = a["n"].as_u64().unwrap() as usize;
                // (environment: the document is open in the node's store actor, as it is for any document that got into the
                // sync set through start_sync; an earlier leave of this schedule may have closed the harness's own handle)
                if self.nodes[n - 1].sync.get_state(ns).await.is_err() {
                    let _ = self.nodes[n - 1].sync.open(ns, iroh_docs::actor::OpenOpts::default().sync()).await;
                }
                let r = self.nodes[n - 1].actor.verif_start_sync(ns).await;
                ev["obs"] = json!(if r.is_ok() { "ok" } else { "err" });
                started = self.collect(n);
            }
            "Leave" => {
                let n = a["n"].as_u64().unwrap() as usize;
                let r = self.nodes[n - 1].actor.verif_leave(ns).await;
                self.joined[n - 1] = false;
                ev["obs"] = json!(if r.is_ok() { "ok" } else { "err" });
                started = self.collect(n);
            }
            // the download bookkeeping beside the coordination: a remote entry whose content is wanted and available at
            // the sender (on_replica_event -> start_download), and later the report of the download task
            "QueueDownload" => {
                let n = a["n"].as_u64().unwrap() as usize;
                let other = self.nodes[2 - n].id;
                self.nq += 1;
                let content = format!("content-{}-{}", n, self.nq);
                let hash = iroh_blobs::Hash::new(content.as_bytes());
                let author = iroh_docs::Author::from_bytes(&[(self.nq % 200) as u8 + 1; 32]);
                let entry = iroh_docs::sync::Entry::new(
                    iroh_docs::sync::RecordIdentifier::new(ns, author.id(), b"dl"),
                    iroh_docs::sync::Record::new(hash, content.len() as u64, 1 + self.nq),
                );
                let se = iroh_docs::sync::SignedEntry::from_entry(entry, &self.ns_secret, &author);
                let r = self.nodes[n - 1]
                    .actor
                    .verif_replica_event(iroh_docs::Event::RemoteInsert {
                        namespace: ns,
                        entry: se,
                        from: *other.as_bytes(),
                        should_download: true,
                        remote_content_status: ContentStatus::Complete,
                    })
                    .await;
                self.queued[n - 1] = Some(hash);
                ev["obs"] = json!(if r.is_ok() { "ok" } else { "err" });
                started = self.collect(n);
            }
            "DownloadReady" => {
                let n = a["n"].as_u64().unwrap() as usize;
                if let Some(hash) = self.queued[n - 1].take() {
                    self.nodes[n - 1].actor.verif_download_ready(ns, hash, a["res"] == "ok").await;
                }
                started = self.collect(n);
            }
            // pure environment steps (network, session tasks): nothing to execute on the nodes
            "LoseRequest" | "DeliverAbort" | "EndDialer" | "EndAcceptor" => {}
            other => panic!("unknown livesync action {other}"),
        }
        let (slots, rs) = self.snapshot();
        ev["st"] = slots;
        ev["resync"] = rs;
        ev["insync"] = json!([self.nodes[0].actor.verif_is_syncing(&ns), self.nodes[1].actor.verif_is_syncing(&ns)]);
        ev["started"] = Value::Array(started);
        if ev.get("obs").is_none() {
            ev["obs"] = json!("");
        }
        ev
    }

    pub fn clear_progress(&mut self) {
        self.delivered.clear();
        self.c_handled.clear();
        self.a_handled.clear();
    }

    /// A dial or session of node n is still in flight or its result unhandled (LiveSync!InFlight on the driver's own records).
    pub fn in_flight(&self, n: usize) -> bool {
        self.dials.iter().enumerate().any(|(i, d)| {
            let id = i + 1;
            (d.from == n && !self.c_handled.contains(&id)) || (d.from != n && self.delivered.contains(&id) && !self.a_handled.contains(&id))
        })
    }

    /// Run the real `BobState` of node m against a dialer that sends `Init` and (if `gone`) has already dropped its
    /// connection, with an accept callback that declines for `reason`; returns the acceptor's error.
    async fn declined_by_real_acceptor(&self, m: usize, peer: PublicKey, reason: AbortReason, gone: bool) -> AcceptError {
        use tokio::io::AsyncWriteExt;
        let ns = self.ns;
        let (bob_io, peer_io) = tokio::io::duplex(1 << 16);
        let (bob_r, bob_w) = tokio::io::split(bob_io);
        let (peer_r, mut peer_w) = tokio::io::split(peer_io);
        let _ = peer_w.write_all(&self.init_frame).await;
        let mut keep = Some((peer_r, peer_w));
        if gone {
            keep = None; // both halves dropped: the acceptor can still read the buffered Init, its reply cannot be written
        }
        let mut st = iroh_docs::net::VerifBobState::new(peer);
        let sync = self.nodes[m - 1].sync.clone();
        let res = st
            .run(bob_w, bob_r, sync, move |_ns, _peer| async move { AcceptOutcome::Reject(reason) })
            .await;
        drop(keep);
        match res {
            Err(e) => e,
            // (cannot happen: a declined request never ends in success) - keep the synthesised form
            Ok(_) => AcceptError::Abort { peer, namespace: ns, reason },
        }
    }

    /// Run the real `BobState` against a dialer that sends `Init`, with an accept callback that allows the request and a store
    /// actor in which the document is not open (what the session finds when the replica was closed under it): the local
    /// processing of the opening message fails; returns the acceptor's error.
    async fn failed_at_init_by_real_acceptor(&self, peer: PublicKey) -> AcceptError {
        use tokio::io::AsyncWriteExt;
        let ns = self.ns;
        let mut store = iroh_docs::store::Store::memory();
        let _ = store.import_namespace(iroh_docs::Capability::Read(ns));
        let sync = iroh_docs::actor::SyncHandle::spawn(store, None, "vdrive-closed".to_string());
        let (bob_io, peer_io) = tokio::io::duplex(1 << 16);
        let (bob_r, bob_w) = tokio::io::split(bob_io);
        let (peer_r, mut peer_w) = tokio::io::split(peer_io);
        let _ = peer_w.write_all(&self.init_frame).await;
        let mut st = iroh_docs::net::VerifBobState::new(peer);
        let res = st.run(bob_w, bob_r, sync.clone(), move |_ns, _peer| async move { AcceptOutcome::Allow }).await;
        drop((peer_r, peer_w));
        let _ = sync.shutdown().await;
        match res {
            Err(e) => e,
            // (cannot happen: the store refuses the message) - keep the synthesised form
            Ok(_) => AcceptError::Sync { peer, namespace: Some(ns), error: anyhow::anyhow!("sync failed") },
        }
    }

    /// Between schedules: every node leaves (through the real handler if it joined through it), queued downloads
    /// are reported, and the nodes of `syncing` join again through the real start_sync handler.
    pub async fn reset(&mut self, w: &World, syncing: &[usize]) {
        let ns = w.nsid();
        for n in 1..=2usize {
            if let Some(hash) = self.queued[n - 1].take() {
                self.nodes[n - 1].actor.verif_download_ready(ns, hash, false).await;
            }
            if self.joined[n - 1] {
                let _ = self.nodes[n - 1].actor.verif_leave(ns).await;
                self.joined[n - 1] = false;
            }
            self.nodes[n - 1].actor.verif_unset_syncing(&ns);
            self.nodes[n - 1].actor.verif_take_dials();
            if syncing.contains(&n) {
                // (not through start_sync: it would dial the peers remembered from earlier schedules)
                self.nodes[n - 1].actor.verif_set_syncing(ns);
            }
        }
    }

    pub async fn shutdown(self) {
        for n in self.nodes {
            let _ = n.sync.shutdown().await;
            let NodeCtx { actor, _endpoint, .. } = n;
            drop(actor);
            _endpoint.close().await;
        }
    }
}

/// Which node gives up its own pending dial when both dial at once?  Both nodes dial, each is handed the other's
/// request; prints `{"yielder": n}` (n = the node that answered Allow, 0 if not exactly one did).
pub fn probe(w: Arc<World>) {
    let rt = tokio::runtime::Builder::new_multi_thread().worker_threads(2).enable_all().build().unwrap();
    let y = rt.block_on(async {
        let Ok(mut pair) = Pair::new(&w, &[1, 2]).await else { return 0 };
        let ns = pair.ns;
        let ids = [pair.nodes[0].id, pair.nodes[1].id];
        for n in 0..2 {
            pair.nodes[n].actor.verif_dial(ns, ids[1 - n], SyncReason::NewNeighbor);
            let _ = pair.nodes[n].actor.verif_take_dials();
        }
        let mut allow = vec![];
        for n in 0..2 {
            if matches!(pair.nodes[n].actor.accept_sync_request(ns, ids[1 - n]), AcceptOutcome::Allow) {
                allow.push(n + 1);
            }
        }
        pair.shutdown().await;
        if allow.len() == 1 { allow[0] } else { 0 }
    });
    println!("{{\"yielder\": {y}}}");
}

pub fn run(w: Arc<World>, seed: u64, schedules: Vec<Value>, trace: &mut Trace, sum: &mut Summary) {
    let rt = tokio::runtime::Builder::new_multi_thread().worker_threads(2).enable_all().build().unwrap();
    // one pair of real nodes serves all schedules; the coordination state is reset between schedules
    let mut pair = match rt.block_on(Pair::new(&w, &[])) {
        Ok(p) => p,
        Err(e) => {
            eprintln!("livesync setup failed: {e:#}");
            std::process::exit(2);
        }
    };
    for (i, sc) in schedules.iter().enumerate() {
        let syncing: Vec<usize> = sc["syncing"].as_array().map(|a| a.iter().map(|x| x.as_u64().unwrap() as usize).collect()).unwrap_or(vec![1, 2]);
        let acts = sc["hist"].as_array().cloned().unwrap_or_default();
        trace.emit(json!({"ev":"Reset","run":i,"seed":seed,"syncing":syncing,"hist":acts,"ops":[]}));
        sum.add("histories", 1);
        pair.dials.clear();
        pair.clear_progress();
        pair.abort_lost = acts.iter().filter(|a| a["a"] == "DeliverAbort")
            .map(|a| (a["d"].as_u64().unwrap_or(0) as usize, a["res"] == "lost")).collect();
        rt.block_on(pair.reset(&w, &syncing));
        let evs: Vec<Value> = rt.block_on(async {
            let mut evs = vec![];
            for a in &acts {
                // a schedule step that names a dial the real nodes never started (the model's choice "start_sync dials the
                // remembered peer" is not a demand of C11): the rest of the schedule cannot be replayed, the prefix stands
                let d = a["d"].as_u64().unwrap_or(0) as usize;
                if d > pair.dials.len() {
                    break;
                }
                // the model's assumption about its environment (a node re-joins only when nothing of it is in flight) has to
                // hold for what the driver does, too: if the real nodes started a dial the schedule does not know about,
                // that dial is never handled - do not re-join over it
                if a["a"] == "Join" && pair.in_flight(a["n"].as_u64().unwrap_or(0) as usize) {
                    break;
                }
                let fut = pair.step(a);
                match futures_lite::future::FutureExt::catch_unwind(std::panic::AssertUnwindSafe(fut)).await {
                    Ok(ev) => evs.push(ev),
                    Err(_) => {
                        evs.push(json!({"ev":"PANIC"}));
                        break;
                    }
                }
            }
            evs
        });
        for ev in evs {
            sum.add("actions", 1);
            trace.emit(ev);
        }
    }
    rt.block_on(pair.shutdown());
}
