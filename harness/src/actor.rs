//! Store-actor driver (C14): pipelined request batches on cloned handles of one real `SyncHandle`
//! actor thread; every request is logged with its reply in send order; at the end the actor is shut
//! down and the store it hands back is observed directly.

use std::{path::Path, sync::Arc};

use iroh_docs::{
    actor::{OpenOpts, SyncHandle},
    store::{Query, Store},
    sync::Event,
    Capability, ContentStatus,
};
use serde_json::{json, Value};

use crate::{
    replica::{key_of, KEYS},
    world::*,
};

const NDOCS: usize = 2;

fn doc_secret(w: &World, d: usize) -> &iroh_docs::NamespaceSecret {
    if d == 1 {
        &w.ns
    } else {
        &w.other_ns[0]
    }
}

/// default-filled request record (uniform shape for TLC)
fn req(op: &str, d: usize) -> Value {
    json!({"ev":"Req","op":op,"d":d,"sync":false,"sub":false,"sid":0,
           "e":{"a":1,"k":[],"ts":1,"h":1,"len":1},"a":1,"k":[],"kind":"read","res":"","val":[],
           "pol":{"kind":"except","filters":[]},"report":[]})
}

thread_local! {
    /// every 4th history concentrates on the useful-peer list (registrations of few peers, reads, drops and re-creations)
    static PEER_FOCUS: std::cell::Cell<bool> = const { std::cell::Cell::new(false) };
    /// every 4th history concentrates on what the actor hands to the store without asking for an open document:
    /// download policies, news detection, the protected hash list - between remote inserts, drops and re-creations
    static META_FOCUS: std::cell::Cell<bool> = const { std::cell::Cell::new(false) };
    /// every 4th history (the ones whose second document starts read-only) concentrates on the capability as the actor
    /// sees it: opens and closes down to the last handle, imports of either kind while the document is open or closed,
    /// write attempts and secret exports in between
    static CAP_FOCUS: std::cell::Cell<bool> = const { std::cell::Cell::new(false) };
}

fn gen_policy(r: &mut Rng) -> Value {
    let kind = if r.chance(1, 2) { "only" } else { "except" };
    let n = *r.pick(&[0usize, 1, 1, 2]);
    let filters: Vec<Value> = (0..n)
        .map(|_| json!([if r.chance(1, 2) { "prefix" } else { "exact" }, key_json(KEYS[r.below(5)])]))
        .collect();
    json!({"kind": kind, "filters": filters})
}

/// one of the requests about policies / news / hashes
fn gen_meta(r: &mut Rng, d: usize, now: u64) -> Value {
    let y = r.below(100);
    if y < 35 {
        let mut q = req("SetPolicy", d);
        q["pol"] = gen_policy(r);
        q
    } else if y < 55 {
        req("GetPolicy", d)
    } else if y < 80 {
        // a head report of 1-3 distinct authors (author 3 is unknown to the store) around the timestamps in use
        let mut q = req("HasNews", d);
        let mut rep = vec![];
        for a in 1..=3 {
            if r.chance(2, 3) {
                rep.push(json!([a, r.below(now as usize + 2)]));
            }
        }
        if rep.is_empty() {
            rep.push(json!([1 + r.below(3), now]));
        }
        q["report"] = json!(rep);
        q
    } else {
        req("Hashes", d)
    }
}

pub fn gen_batches(r: &mut Rng, len: usize) -> Vec<Value> {
    let mut out = vec![];
    let mut now = 5u64;
    let mut t = 0;
    // remote inserts sent so far: now and then one of them is sent again, byte for byte (a duplicate delivery) - whatever
    // the state of the document has become in the meantime
    let mut sent_remote: Vec<Value> = vec![];
    if META_FOCUS.with(|c| c.get()) {
        // the documents of such a history hold something from the start: both opened with sync, a few local and remote
        // entries with distinct hashes (the hash list, the heads and the download flags then have something to show, and a
        // drop has something to take away)
        let mut reqs = vec![];
        for d in 1..=NDOCS {
            let mut q = req("Open", d);
            q["sync"] = json!(true);
            q["sub"] = json!(d == 1);
            q["now"] = json!(now);
            reqs.push(q);
            for j in 0..2usize {
                let mut q = req(if j == 0 { "InsertLocal" } else { "InsertRemote" }, d);
                let h = if (d + j) % 2 == 0 { 1 } else { 2 };
                q["e"] = json!({"a":1 + j,"k":key_json(KEYS[(d + 2 * j) % 5]),"ts":now,"h":h,"len":1});
                q["now"] = json!(now);
                reqs.push(q);
            }
        }
        t += reqs.len();
        out.push(json!({"now": now, "reqs": reqs}));
    }
    while t < len {
        let n = 1 + r.below(4);
        now += r.below(3) as u64;
        let mut reqs = vec![];
        if META_FOCUS.with(|c| c.get()) && r.chance(1, 5) {
            // what a garbage-collection run sees around the removal of a document: the hash list, the document dropped (twice:
            // a second handle may be open), the hash list again - with no write in between
            let d = 1 + r.below(NDOCS);
            for op in ["Hashes", "Drop", "Drop", "Hashes", "GetPolicy"] {
                let mut q = req(op, d);
                q["now"] = json!(now);
                reqs.push(q);
            }
            t += reqs.len();
            out.push(json!({"now": now, "reqs": reqs}));
            continue;
        }
        for _ in 0..n {
            let d = 1 + r.below(NDOCS);
            let mut x = r.below(100);
            if PEER_FOCUS.with(|c| c.get()) && r.chance(1, 2) {
                // registration / read / drop / re-creation / open, in that proportion
                let y = r.below(100);
                let mut q = if y < 45 {
                    let mut q = req("RegisterPeer", d);
                    q["p"] = json!(1 + r.below(2));
                    q
                } else if y < 60 {
                    req("GetPeers", d)
                } else if y < 72 {
                    req("Drop", d)
                } else if y < 86 {
                    let mut q = req("Import", d);
                    q["kind"] = json!("write");
                    q
                } else {
                    let mut q = req("Open", d);
                    q["sync"] = json!(false);
                    q
                };
                q["now"] = json!(now);
                reqs.push(q);
                continue;
            }
            if x >= 100 {
                x = 99;
            }
            if !sent_remote.is_empty() && r.chance(1, 16) {
                let mut q = sent_remote[r.below(sent_remote.len())].clone();
                q["now"] = json!(now);
                reqs.push(q);
                continue;
            }
            if CAP_FOCUS.with(|c| c.get()) && r.chance(2, 3) {
                let d = if r.chance(3, 4) { 2 } else { d };
                let y = r.below(100);
                let mut q = if y < 22 {
                    let mut q = req("Open", d);
                    q["sync"] = json!(r.chance(1, 3));
                    q
                } else if y < 47 {
                    req("Close", d)
                } else if y < 59 {
                    let mut q = req("Import", d);
                    q["kind"] = json!("write");
                    q
                } else if y < 66 {
                    let mut q = req("Import", d);
                    q["kind"] = json!("read");
                    q
                } else if y < 82 {
                    let mut q = req("InsertLocal", d);
                    q["e"] = json!({"a":1 + r.below(2),"k":key_json(KEYS[r.below(5)]),"ts":now,"h":*r.pick(&[-1i64,1,2]),"len":1});
                    q
                } else if y < 87 {
                    let mut q = req("DeletePrefix", d);
                    q["e"] = json!({"a":1 + r.below(2),"k":key_json(KEYS[r.below(5)]),"ts":now,"h":0,"len":0});
                    q
                } else if y < 95 {
                    req("ExportSecret", d)
                } else if y < 98 {
                    req("GetState", d)
                } else {
                    req("Drop", d)
                };
                q["now"] = json!(now);
                reqs.push(q);
                continue;
            }
            if META_FOCUS.with(|c| c.get()) && r.chance(1, 2) {
                let y = r.below(100);
                let mut q = if y < 60 {
                    gen_meta(r, d, now)
                } else if y < 80 {
                    // (author 3 is not imported into the store: it only ever appears through remote entries)
                    let mut q = req("InsertRemote", d);
                    let h = *r.pick(&[0i64, 1, 2]);
                    q["e"] = json!({"a":1 + r.below(3),"k":key_json(KEYS[r.below(5)]),"ts":1 + r.below(now as usize + 2),"h":h,"len": if h == 0 {0} else {1}});
                    q
                } else if y < 88 {
                    req("Drop", d)
                } else if y < 94 {
                    let mut q = req("Import", d);
                    q["kind"] = json!("write");
                    q
                } else {
                    let mut q = req("Open", d);
                    q["sync"] = json!(true);
                    q["sub"] = json!(r.chance(1, 2));
                    q
                };
                q["now"] = json!(now);
                reqs.push(q);
                continue;
            }
            let mut q = if x < 22 {
                let mut q = req("Open", d);
                q["sync"] = json!(r.chance(1, 2));
                q["sub"] = json!(r.chance(1, 3));
                q
            } else if x < 28 {
                req("Close", d)
            } else if x < 30 {
                let mut q = req("SetSync", d);
                q["sync"] = json!(r.chance(1, 2));
                q
            } else if x < 44 {
                let mut q = req("InsertLocal", d);
                q["e"] = json!({"a":1 + r.below(2),"k":key_json(KEYS[r.below(5)]),"ts":now,"h":*r.pick(&[-1i64,1,2]),"len":1});
                q
            } else if x < 50 {
                let mut q = req("DeletePrefix", d);
                q["e"] = json!({"a":1 + r.below(2),"k":key_json(KEYS[r.below(5)]),"ts":now,"h":0,"len":0});
                q
            } else if x < 60 {
                let mut q = req("InsertRemote", d);
                let h = *r.pick(&[0i64, 1, 2]);
                q["e"] = json!({"a":1 + r.below(2),"k":key_json(KEYS[r.below(5)]),"ts":1 + r.below(now as usize + 2),"h":h,"len": if h == 0 {0} else {1}});
                q
            } else if x < 62 {
                req("SyncInit", d)
            } else if x < 64 {
                // the accepting side of a reconciliation: the opening message of an empty replica of the same document
                req("SyncProcess", d)
            } else if x < 74 {
                req("GetMany", d)
            } else if x < 78 {
                let mut q = req("GetExact", d);
                q["a"] = json!(1 + r.below(2));
                q["k"] = key_json(KEYS[r.below(5)]);
                q
            } else if x < 84 {
                req("GetState", d)
            } else if x < 88 {
                gen_meta(r, d, now)
            } else if x < 91 {
                req("Subscribe", d)
            } else if x < 93 {
                req("Unsubscribe", d)
            } else if x < 95 {
                req("Drop", d)
            } else if x < 98 {
                if r.chance(1, 2) {
                    // a listing (read snapshot in the store) immediately before the import, in the same batch
                    let mut l = req("List", d);
                    l["now"] = json!(now);
                    reqs.push(l);
                }
                let mut q = req("Import", d);
                q["kind"] = json!(if r.chance(1, 2) { "write" } else { "read" });
                q
            } else if x < 100 && r.chance(1, 2) {
                // the useful-peer list through the actor (C17): registrations (often the same peer again) and reads
                if r.chance(1, 3) {
                    req("GetPeers", d)
                } else {
                    let mut q = req("RegisterPeer", d);
                    let span = if r.chance(1, 2) { 2 } else { 7 };
                    q["p"] = json!(1 + r.below(span));
                    q
                }
            } else if x < 100 && r.chance(1, 2) {
                req("ExportSecret", d)
            } else {
                req("Flush", d)
            };
            q["now"] = json!(now);
            if q["op"] == "InsertRemote" {
                sent_remote.push(q.clone());
            }
            reqs.push(q);
        }
        t += n;
        out.push(json!({"now": now, "reqs": reqs}));
    }
    out
}

struct SubTable {
    /// every sender ever created, by id (receivers kept alive so that sends never fail)
    all: Vec<(async_channel::Sender<Event>, async_channel::Receiver<Event>)>,
}

async fn exec(w: Arc<World>, h: SyncHandle, q: Value, sub: Option<async_channel::Sender<Event>>) -> Value {
    let d = q["d"].as_u64().unwrap() as usize;
    let ns = doc_secret(&w, d).id();
    let mut q = q;
    let e = q["e"].clone();
    let ok = |q: &mut Value, val: Value| {
        q["res"] = json!("ok");
        q["val"] = val;
    };
    macro_rules! fin {
        ($res:expr, $f:expr) => {
            match $res {
                Ok(v) => {
                    let val = $f(v);
                    ok(&mut q, val)
                }
                Err(err) => q["res"] = json!(anyhow_class(&err)),
            }
        };
    }
    match q["op"].as_str().unwrap() {
        "Open" => {
            let mut opts = OpenOpts::default();
            if q["sync"].as_bool().unwrap() {
                opts = opts.sync();
            }
            if let Some(tx) = sub {
                opts = opts.subscribe(tx);
            }
            fin!(h.open(ns, opts).await, |_| json!([]))
        }
        "Close" => fin!(h.close(ns).await, |b: bool| json!([b])),
        "SetSync" => fin!(h.set_sync(ns, q["sync"].as_bool().unwrap()).await, |_| json!([])),
        "Subscribe" => fin!(h.subscribe(ns, sub.unwrap()).await, |_| json!([])),
        "Unsubscribe" => fin!(h.unsubscribe(ns, sub.unwrap()).await, |_| json!([])),
        "InsertLocal" => {
            let a = w.author(e["a"].as_i64().unwrap()).id();
            fin!(
                h.insert_local(ns, a, key_of(&e["k"]).into(), w.hash(e["h"].as_i64().unwrap()), 1).await,
                |_| json!([])
            )
        }
        "DeletePrefix" => {
            let a = w.author(e["a"].as_i64().unwrap()).id();
            fin!(h.delete_prefix(ns, a, key_of(&e["k"]).into()).await, |n: usize| json!([n]))
        }
        "InsertRemote" => {
            let se = w.signed_in(doc_secret(&w, d), e["a"].as_i64().unwrap(), &key_of(&e["k"]), e["ts"].as_u64().unwrap(),
                                 e["h"].as_i64().unwrap(), e["len"].as_u64().unwrap());
            fin!(h.insert_remote(ns, se, w.peers[0], ContentStatus::Missing).await, |_| json!([]))
        }
        "SyncInit" => fin!(h.sync_initial_message(ns).await, |_| json!([])),
        "SyncProcess" => {
            // the opening message of an empty replica of this document (it carries no entries: processing it stores nothing)
            let msg = {
                let mut st = iroh_docs::store::Store::memory();
                st.import_namespace(iroh_docs::Capability::Write(doc_secret(&w, d).clone())).expect("import");
                let mut info = st.load_replica_info(&ns).expect("info");
                let mut rep = iroh_docs::verif::replica(&mut st, &mut info);
                rep.sync_initial_message().expect("init")
            };
            fin!(h.sync_process_message(ns, msg, w.peers[0], Default::default()).await, |_| json!([]))
        }
        "GetMany" => {
            let (tx, mut rx) = irpc::channel::mpsc::channel(4096);
            match h.get_many(ns, Query::all().include_empty().build(), tx).await {
                Err(err) => q["res"] = json!(anyhow_class(&err)),
                Ok(()) => {
                    let mut items = vec![];
                    let mut err = None;
                    loop {
                        match rx.recv().await {
                            Ok(Some(Ok(en))) => items.push(w.proj_entry(&en)),
                            Ok(Some(Err(e))) => {
                                let _ = e;
                                err = Some("err");
                            }
                            Ok(None) | Err(_) => break,
                        }
                    }
                    match err {
                        Some(c) => q["res"] = json!(c),
                        None => ok(&mut q, Value::Array(items)),
                    }
                }
            }
        }
        "GetExact" => {
            let a = w.author(q["a"].as_i64().unwrap()).id();
            fin!(h.get_exact(ns, a, key_of(&q["k"]).into(), true).await, |o: Option<iroh_docs::SignedEntry>| {
                Value::Array(o.iter().map(|e| w.proj_entry(e)).collect())
            })
        }
        "GetState" => fin!(h.get_state(ns).await, |s: iroh_docs::actor::OpenState| json!([s.handles, s.sync, s.subscribers])),
        "Drop" => fin!(h.drop_replica(ns).await, |_| json!([])),
        "Import" => {
            let cap = if q["kind"] == "write" { Capability::Write(doc_secret(&w, d).clone()) } else { Capability::Read(ns) };
            fin!(h.import_namespace(cap).await, |_| json!([]))
        }
        "ExportSecret" => fin!(h.export_secret_key(ns).await, |_| json!([])),
        "List" => {
            let (tx, mut rx) = irpc::channel::mpsc::channel(64);
            match h.list_replicas(tx).await {
                Err(err) => q["res"] = json!(anyhow_class(&err)),
                Ok(()) => {
                    let mut nn = 0;
                    while let Ok(Some(_)) = rx.recv().await {
                        nn += 1;
                    }
                    let _ = nn;
                    ok(&mut q, json!([]));
                }
            }
        }
        "Flush" => fin!(h.flush_store().await, |_| json!([])),
        "RegisterPeer" => {
            let p = q["p"].as_u64().unwrap() as usize;
            // (no await before the request is sent: the requests of a batch reach the actor in batch order)
            fin!(h.register_useful_peer(ns, w.peers[p - 1]).await, |_| json!([]))
        }
        "GetPeers" => fin!(h.get_sync_peers(ns).await, |v: Option<Vec<[u8; 32]>>| {
            json!(v.unwrap_or_default().iter().map(|p| w.peer_rank(p)).collect::<Vec<i64>>())
        }),
        "SetPolicy" => fin!(h.set_download_policy(ns, crate::docs::policy_of(&q["pol"])).await, |_| json!([])),
        "GetPolicy" => fin!(h.get_download_policy(ns).await, |p: iroh_docs::store::DownloadPolicy| json!([crate::docs::policy_json(&p)])),
        "HasNews" => {
            let mut heads = iroh_docs::AuthorHeads::default();
            for p in q["report"].as_array().unwrap() {
                heads.insert(w.author(p[0].as_i64().unwrap()).id(), p[1].as_u64().unwrap());
            }
            fin!(h.has_news_for_us(ns, heads).await, |n: Option<std::num::NonZeroU64>| json!([n.map(|x| x.get()).unwrap_or(0)]))
        }
        "Hashes" => match h.content_hashes().await {
            Err(err) => q["res"] = json!(anyhow_class(&err)),
            Ok(it) => {
                let mut v = vec![];
                let mut bad = false;
                for x in it {
                    match x {
                        Ok(hash) => v.push(w.hash_rank(&hash)),
                        Err(_) => bad = true,
                    }
                }
                v.sort();
                v.dedup();
                if bad {
                    q["res"] = json!("err");
                } else {
                    ok(&mut q, json!([v]));
                }
            }
        },
        other => panic!("unknown actor op {other}"),
    }
    q
}

/// Truly concurrent clients: two OS threads, each with its own runtime and its own clone of the handle, issue
/// their requests one after the other (awaiting each reply) while the other thread does the same. The trace
/// records each client's sequence with replies; TLC searches for an interleaving that explains all replies.
pub fn run_concurrent(w: Arc<World>, seed: u64, rng: &mut Rng, n: usize, trace: &mut Trace, sum: &mut Summary) {
    for i in 0..n {
        let mut store = Store::memory();
        for d in 1..=NDOCS {
            store.import_namespace(Capability::Write(doc_secret(&w, d).clone())).unwrap();
        }
        for a in 1..=2 {
            store.import_author(w.author(a).clone()).unwrap();
        }
        let handle = SyncHandle::spawn(store, None, format!("vdrive-conc-{i}"));
        iroh_docs::verif::set_clock(50);
        // programs without subscriptions (those are covered by the pipelined batches)
        let progs: Vec<Vec<Value>> = (0..2)
            .map(|c| {
                let len = 3 + rng.below(4);
                (0..len)
                    .map(|j| {
                        let d = 1 + rng.below(NDOCS);
                        let x = rng.below(100);
                        let mut q = if x < 25 {
                            let mut q = req("Open", d);
                            q["sync"] = json!(rng.chance(1, 2));
                            q
                        } else if x < 40 {
                            req("Close", d)
                        } else if x < 60 {
                            let mut q = req("InsertLocal", d);
                            // distinct keys per client and step: the outcome does not depend on the store's tie rules
                            q["e"] = json!({"a":1 + c,"k":key_json(&[c as u8, j as u8]),"ts":50,"h":1,"len":1});
                            q
                        } else if x < 72 {
                            let mut q = req("InsertRemote", d);
                            q["e"] = json!({"a":1 + c,"k":key_json(&[9, c as u8, j as u8]),"ts":40,"h":2,"len":1});
                            q
                        } else if x < 82 {
                            req("GetState", d)
                        } else if x < 92 {
                            let mut q = req("SetSync", d);
                            q["sync"] = json!(rng.chance(1, 2));
                            q
                        } else {
                            req("SyncInit", d)
                        };
                        q["c"] = json!(c + 1);
                        q["now"] = json!(50);
                        q
                    })
                    .collect()
            })
            .collect();
        let mut threads = vec![];
        for prog in progs.into_iter() {
            let h = handle.clone();
            let w2 = w.clone();
            threads.push(std::thread::spawn(move || {
                let rt = tokio::runtime::Builder::new_current_thread().enable_all().build().unwrap();
                rt.block_on(async move {
                    let mut out = vec![];
                    for q in prog {
                        out.push(exec(w2.clone(), h.clone(), q, None).await);
                    }
                    out
                })
            }));
        }
        let clients: Vec<Value> = threads.into_iter().map(|t| Value::Array(t.join().unwrap_or_default())).collect();
        trace.emit(json!({"ev":"Reset","run":format!("conc-{i}"),"seed":seed,"ops":[],"backend":"mem","caps":["write","write"]}));
        trace.emit(json!({"ev":"Conc","clients":clients}));
        sum.add("histories", 1);
        sum.add("concurrent_runs", 1);
        let rt = tokio::runtime::Builder::new_current_thread().enable_all().build().unwrap();
        let _ = rt.block_on(handle.shutdown());
    }
    iroh_docs::verif::set_clock(0);
}

pub fn run(w: Arc<World>, seed: u64, rng: &mut Rng, schedules: Vec<Value>, n: usize, dir: &Path, trace: &mut Trace, sum: &mut Summary) {
    let rt = tokio::runtime::Builder::new_current_thread().enable_all().build().unwrap();
    let mut runs: Vec<(Vec<Value>, bool)> = schedules
        .into_iter()
        .map(|s| (s["ops"].as_array().cloned().unwrap_or_default(), s["backend"] == "file"))
        .collect();
    for i in 0..n {
        PEER_FOCUS.with(|c| c.set(i % 4 == 3));
        META_FOCUS.with(|c| c.set(i % 4 == 1));
        CAP_FOCUS.with(|c| c.set(i % 8 == 2));
        runs.push((gen_batches(rng, if i % 3 == 0 { 10 } else { 40 }), i % 3 == 1));
        PEER_FOCUS.with(|c| c.set(false));
        META_FOCUS.with(|c| c.set(false));
        CAP_FOCUS.with(|c| c.set(false));
    }
    for (i, (batches, file)) in runs.iter().enumerate() {
        let path = dir.join(format!("actor-{i}.redb"));
        let _ = std::fs::remove_file(&path);
        let mut store = if *file { Store::persistent(&path).unwrap() } else { Store::memory() };
        // initial store: both documents exist with write capability, authors 1..2 imported
        // initial capabilities: mostly both writable; sometimes document 2 is read-only or absent
        let caps: Vec<&str> = match i % 4 {
            2 => vec!["write", "read"],
            3 => vec!["write", "none"],
            _ => vec!["write", "write"],
        };
        for d in 1..=NDOCS {
            match caps[d - 1] {
                "write" => { store.import_namespace(Capability::Write(doc_secret(&w, d).clone())).unwrap(); }
                "read" => { store.import_namespace(Capability::Read(doc_secret(&w, d).id())).unwrap(); }
                _ => {}
            }
        }
        for a in 1..=2 {
            store.import_author(w.author(a).clone()).unwrap();
        }
        let handle = SyncHandle::spawn(store, None, format!("vdrive-{i}"));
        trace.emit(json!({"ev":"Reset","run":i,"seed":seed,"ops":batches,"backend": if *file {"file"} else {"mem"},"caps":caps}));
        sum.add("histories", 1);
        let mut subs = SubTable { all: vec![] };
        let mut pick = Rng::new(seed ^ (i as u64) ^ 0x55);
        let res: Result<Store, ()> = rt.block_on(async {
            for (bi, b) in batches.iter().enumerate() {
                iroh_docs::verif::set_clock(b["now"].as_u64().unwrap());
                let mut tasks = vec![];
                for (ci, q) in b["reqs"].as_array().unwrap().iter().enumerate() {
                    let d = q["d"].as_u64().unwrap() as usize;
                    let mut q = q.clone();
                    q["batch"] = json!(bi);
                    q["c"] = json!(ci % 2 + 1);
                    // subscription channels are created by the driver; the table mirrors what was sent
                    let sub = match q["op"].as_str().unwrap() {
                        "Open" if q["sub"].as_bool().unwrap() => {
                            let (tx, rx) = async_channel::unbounded();
                            subs.all.push((tx.clone(), rx));
                            q["sid"] = json!(subs.all.len());
                            Some(tx)
                        }
                        "Subscribe" => {
                            let (tx, rx) = async_channel::unbounded();
                            subs.all.push((tx.clone(), rx));
                            q["sid"] = json!(subs.all.len());
                            Some(tx)
                        }
                        "Unsubscribe" => {
                            // any sender created so far (possibly subscribed on the other document or not at all)
                            if subs.all.is_empty() || pick.chance(1, 5) {
                                let (tx, rx) = async_channel::unbounded();
                                subs.all.push((tx.clone(), rx));
                                q["sid"] = json!(subs.all.len());
                                Some(tx)
                            } else {
                                let j = pick.below(subs.all.len());
                                q["sid"] = json!(j + 1);
                                Some(subs.all[j].0.clone())
                            }
                        }
                        _ => None,
                    };
                    let _ = d;
                    // two cloned handles stand for two clients
                    let h = handle.clone();
                    tasks.push(tokio::spawn(exec(w.clone(), h, q, sub)));
                }
                for t in tasks {
                    match t.await {
                        Ok(ev) => {
                            trace.emit(ev);
                            sum.add("requests", 1);
                        }
                        Err(_) => {
                            trace.emit(json!({"ev":"PANIC","batch":bi}));
                            return Err(());
                        }
                    }
                }
                // every reply of the batch has arrived, so every event of the batch has been delivered:
                // drain all subscriber channels (C12 through the actor)
                let mut evs = vec![];
                for (j, (_tx, rx)) in subs.all.iter().enumerate() {
                    let mut got = vec![];
                    while let Ok(ev) = rx.try_recv() {
                        got.push(match ev {
                            Event::LocalInsert { entry, .. } => json!({"o":"local","e":w.proj_entry(&entry),"from":0,"cs":0,"dl":false}),
                            Event::RemoteInsert { entry, from, should_download, remote_content_status, .. } => {
                                json!({"o":"remote","e":w.proj_entry(&entry),"from":w.peer_rank(&from),"cs":cs_num(remote_content_status),"dl":should_download})
                            }
                        });
                    }
                    evs.push(json!({"sid": j + 1, "events": got}));
                }
                trace.emit(json!({"ev":"Drain","batch":bi,"evs":evs}));
            }
            handle.shutdown().await.map_err(|_| ())
        });
        match res {
            Ok(mut store) => {
                let mut docs = vec![];
                let caps: Vec<_> = store.list_namespaces().map(|it| it.flatten().collect()).unwrap_or_default();
                for d in 1..=NDOCS {
                    let id = doc_secret(&w, d).id();
                    let cap = caps.iter().find(|(n, _)| *n == id).map(|(_, k)| match k {
                        iroh_docs::CapabilityKind::Write => "write",
                        iroh_docs::CapabilityKind::Read => "read",
                    }).unwrap_or("none");
                    docs.push(json!({"cap": cap, "st": w.contents(&mut store, id)}));
                }
                trace.emit(json!({"ev":"Shutdown","res":"ok","docs":docs}));
            }
            Err(_) => trace.emit(json!({"ev":"Shutdown","res":"err","docs":[]})),
        }
        drop(handle);
        let _ = std::fs::remove_file(&path);
    }
    iroh_docs::verif::set_clock(0);
}
