//! Multi-document store driver (C07 C15 C16 C17 C18): several documents whose ids are neighbours in byte
//! order (real-key documents for records; synthetic read-only ids ending in 0xFE/0xFF/carry and the
//! all-0xFF id for the per-document settings), capability imports, open/close, writes, peers, policies,
//! removal, re-creation, store reopen and deletion of derived tables with plain redb.

use std::{collections::BTreeMap, path::Path};

use iroh_docs::{
    store::{DownloadPolicy, FilterKind, Query, SortBy, SortDirection, Store},
    Capability, CapabilityKind, ContentStatus, NamespaceId, NamespaceSecret, ReplicaInfo,
};
use redb::{ReadableDatabase, ReadableTable, TableHandle};
use serde_json::{json, Value};

use crate::{
    replica::{key_of, KEYS},
    world::*,
};

pub struct DocTable {
    /// (id bytes, secret if a real document), sorted by id bytes; index + 1 = rank
    pub docs: Vec<([u8; 32], Option<NamespaceSecret>)>,
}

impl DocTable {
    pub fn new(w: &World) -> Self {
        let mut docs: Vec<([u8; 32], Option<NamespaceSecret>)> = vec![
            (w.ns.id().to_bytes(), Some(w.ns.clone())),
            (w.other_ns[0].id().to_bytes(), Some(w.other_ns[0].clone())),
            (w.other_ns[1].id().to_bytes(), Some(w.other_ns[1].clone())),
        ];
        // synthetic neighbours around a real id: ..FE, ..FF, and the carry successor ..(b+1)00
        let mut x = w.other_ns[1].id().to_bytes();
        x[31] = 0xFE;
        if x[30] == 0xFF {
            x[30] = 0x10;
        }
        let mut xf = x;
        xf[31] = 0xFF;
        let mut xc = x;
        xc[31] = 0x00;
        xc[30] += 1;
        for id in [x, xf, xc, [0xFFu8; 32]] {
            if !docs.iter().any(|(d, _)| *d == id) {
                docs.push((id, None));
            }
        }
        docs.sort_by_key(|(d, _)| *d);
        DocTable { docs }
    }
    pub fn id(&self, rank: usize) -> NamespaceId {
        NamespaceId::from(&self.docs[rank - 1].0)
    }
    pub fn secret(&self, rank: usize) -> Option<&NamespaceSecret> {
        self.docs[rank - 1].1.as_ref()
    }
    pub fn real(&self) -> Vec<usize> {
        (1..=self.docs.len()).filter(|r| self.docs[r - 1].1.is_some()).collect()
    }
    pub fn n(&self) -> usize {
        self.docs.len()
    }
}

pub struct DocsRun<'w> {
    w: &'w World,
    t: DocTable,
    path: Option<std::path::PathBuf>,
    store: Option<Store>,
    infos: BTreeMap<usize, ReplicaInfo>,
}

pub(crate) fn policy_json(p: &DownloadPolicy) -> Value {
    let (kind, fs) = match p {
        DownloadPolicy::NothingExcept(f) => ("only", f),
        DownloadPolicy::EverythingExcept(f) => ("except", f),
    };
    let filters: Vec<Value> = fs
        .iter()
        .map(|f| match f {
            FilterKind::Prefix(b) => json!(["prefix", key_json(b)]),
            FilterKind::Exact(b) => json!(["exact", key_json(b)]),
        })
        .collect();
    json!({"kind": kind, "filters": filters})
}

pub(crate) fn policy_of(v: &Value) -> DownloadPolicy {
    let filters: Vec<FilterKind> = v["filters"]
        .as_array()
        .unwrap()
        .iter()
        .map(|f| {
            let b = key_of(&f[1]);
            if f[0] == "prefix" {
                FilterKind::Prefix(b.into())
            } else {
                FilterKind::Exact(b.into())
            }
        })
        .collect();
    if v["kind"] == "only" {
        DownloadPolicy::NothingExcept(filters)
    } else {
        DownloadPolicy::EverythingExcept(filters)
    }
}

impl<'w> DocsRun<'w> {
    pub fn new(w: &'w World, path: Option<std::path::PathBuf>) -> Self {
        let store = match &path {
            Some(p) => Store::persistent(p).expect("persistent"),
            None => Store::memory(),
        };
        DocsRun {
            w,
            t: DocTable::new(w),
            path,
            store: Some(store),
            infos: BTreeMap::new(),
        }
    }

    fn observe(&mut self) -> (Value, Value) {
        let w = self.w;
        let store = self.store.as_mut().unwrap();
        let mut caps: BTreeMap<[u8; 32], &'static str> = BTreeMap::new();
        if let Ok(it) = store.list_namespaces() {
            for r in it.flatten() {
                caps.insert(
                    r.0.to_bytes(),
                    match r.1 {
                        CapabilityKind::Write => "write",
                        CapabilityKind::Read => "read",
                    },
                );
            }
        }
        let mut docs = vec![];
        for r in 1..=self.t.n() {
            let id = self.t.id(r);
            let st = w.contents(store, id);
            let heads: Value = match store.get_latest_for_each_author(id) {
                Ok(it) => Value::Array(
                    it.flatten()
                        .map(|(a, ts, _k)| json!({"a": w.author_rank(&a.to_bytes()), "ts": ts}))
                        .collect(),
                ),
                Err(_) => json!("ERR"),
            };
            let bykey: Value = match store.get_many(
                id,
                Query::all().include_empty().sort_by(SortBy::KeyAuthor, SortDirection::Asc),
            ) {
                Ok(it) => Value::Array(it.flatten().map(|e| w.proj_entry(&e)).collect()),
                Err(_) => json!("ERR"),
            };
            let peers: Value = match store.get_sync_peers(&id) {
                Ok(Some(it)) => Value::Array(it.map(|p| json!(w.peer_rank(&p))).collect()),
                Ok(None) => json!([]),
                Err(_) => json!("ERR"),
            };
            let pol = match store.get_download_policy(&id) {
                Ok(p) => policy_json(&p),
                Err(_) => json!("ERR"),
            };
            // news detection against a fixed report (authors 1 and 2 at timestamp 1 = older than or equal to anything held):
            // the number of authors the report has news for = those of the two we hold nothing of
            let news: Value = {
                let mut report = iroh_docs::AuthorHeads::default();
                report.insert(w.author(1).id(), 1);
                report.insert(w.author(2).id(), 1);
                match store.has_news_for_us(id, &report) {
                    Ok(n) => json!(n.map(|x| x.get()).unwrap_or(0)),
                    Err(_) => json!(-1),
                }
            };
            docs.push(json!({"cap": caps.get(&id.to_bytes()).copied().unwrap_or("none"),
                             "st": st, "heads": heads, "bykey": bykey, "peers": peers, "pol": pol, "news": news}));
        }
        let hashes: Value = match store.content_hashes() {
            Ok(it) => {
                let mut v: Vec<i64> = it.flatten().map(|h| w.hash_rank(&h)).collect();
                v.sort();
                json!(v)
            }
            Err(_) => json!("ERR"),
        };
        (Value::Array(docs), hashes)
    }

    pub async fn step(&mut self, op: &Value) -> Option<Value> {
        let mut ev = self.exec(op).await?;
        let (docs, hashes) = self.observe();
        ev["docs"] = docs;
        ev["hashes"] = hashes;
        let open: Vec<usize> = self.infos.keys().copied().collect();
        ev["open"] = json!(open);
        Some(ev)
    }

    /// Execute one op without observing (observation commits the open transaction).
    pub async fn exec(&mut self, op: &Value) -> Option<Value> {
        let w = self.w;
        let kind = op["op"].as_str().unwrap();
        // optionally leave a particular kind of "current transaction" in the store right before the call:
        // a read snapshot (list_*), or an open write transaction (an author import)
        match op["pre"].as_str() {
            Some("list") => {
                let _ = self.store.as_mut().unwrap().list_namespaces().map(|it| it.count());
            }
            Some("listauthors") => {
                let _ = self.store.as_mut().unwrap().list_authors().map(|it| it.count());
            }
            Some("write") => {
                let _ = self.store.as_mut().unwrap().import_author(w.stranger.clone());
            }
            _ => {}
        }
        let d = op["d"].as_u64().unwrap_or(0) as usize;
        iroh_docs::verif::set_clock(op["now"].as_u64().unwrap_or(1000));
        let ev = match kind {
            "import" | "listimport" => {
                if kind == "listimport" {
                    // leave a read snapshot as the store's current transaction right before the import
                    let _ = self.store.as_mut().unwrap().list_namespaces().map(|it| it.count());
                    if op["authors"].as_bool().unwrap_or(false) {
                        let _ = self.store.as_mut().unwrap().list_authors().map(|it| it.count());
                    }
                }
                let cap = match (op["kind"].as_str().unwrap(), self.t.secret(d)) {
                    ("write", Some(s)) => Capability::Write(s.clone()),
                    ("write", None) => return None,
                    _ => Capability::Read(self.t.id(d)),
                };
                // "via": "new_replica" - the write secret arrives through Store::new_replica (import + open in one call)
                let via_new = op["via"] == "new_replica" && matches!(cap, Capability::Write(_));
                let res = if via_new {
                    let secret = self.t.secret(d).unwrap().clone();
                    let was_open = self.infos.contains_key(&d);
                    let store = self.store.as_mut().unwrap();
                    let r = store.new_replica(secret).map(|_replica| iroh_docs::store::ImportNamespaceOutcome::Inserted);
                    if !was_open {
                        store.close_replica(self.t.id(d));
                    }
                    // (which outcome import_namespace reported inside is not visible here: bring an open handle up to date)
                    if let (Ok(_), Some(info), Some(s)) = (&r, self.infos.get_mut(&d), self.t.secret(d)) {
                        let _ = info.merge_capability(Capability::Write(s.clone()));
                    }
                    r
                } else {
                    self.store.as_mut().unwrap().import_namespace(cap)
                };
                // keep an open handle's capability in step, as the actor does
                if let (Ok(iroh_docs::store::ImportNamespaceOutcome::Upgraded), Some(info), Some(s)) =
                    (&res, self.infos.get_mut(&d), self.t.secret(d))
                {
                    let _ = info.merge_capability(Capability::Write(s.clone()));
                }
                json!({"ev":"Import","d":d,"kind":op["kind"],"res": if res.is_ok() {"ok"} else {"err"}})
            }
            "open" => {
                let res = self.store.as_mut().unwrap().load_replica_info(&self.t.id(d));
                let r = match res {
                    Ok(info) => {
                        self.infos.insert(d, info);
                        "ok"
                    }
                    Err(iroh_docs::store::OpenError::NotFound) => "NotFound",
                    Err(_) => "err",
                };
                json!({"ev":"Open","d":d,"res":r})
            }
            "close" => {
                if self.infos.remove(&d).is_none() {
                    return None;
                }
                self.store.as_mut().unwrap().close_replica(self.t.id(d));
                json!({"ev":"Close","d":d,"res":"ok"})
            }
            "local" | "delete" => {
                let info = self.infos.get_mut(&d)?;
                let a = op["a"].as_i64().unwrap();
                let k = key_of(&op["k"]);
                let h = op["h"].as_i64().unwrap_or(1);
                let now = op["now"].as_u64().unwrap();
                let store = self.store.as_mut().unwrap();
                let mut rep = iroh_docs::verif::replica(store, info);
                let res = if kind == "local" {
                    rep.insert(&k, w.author(a), w.hash(h), 1).await
                } else {
                    rep.delete_prefix(&k, w.author(a)).await
                };
                drop(rep);
                let e = json!({"a":a,"k":key_json(&k),"ts":now,"h": if kind=="local" {h} else {0}, "len": if kind=="local" {1} else {0}});
                let (r, removed) = match &res {
                    Ok(n) => ("ok".to_string(), *n as i64),
                    Err(e) => (insert_error_class(e).to_string(), -1),
                };
                json!({"ev":"Put","d":d,"path":kind,"e":e,"res":r,"removed":removed})
            }
            "remote" => {
                let secret = self.t.secret(d)?.clone();
                let info = self.infos.get_mut(&d)?;
                let e = &op["e"];
                let se = w.signed_in(&secret, e["a"].as_i64().unwrap(), &key_of(&e["k"]), e["ts"].as_u64().unwrap(),
                                     e["h"].as_i64().unwrap(), e["len"].as_u64().unwrap());
                let pe = w.proj_entry(&se);
                let store = self.store.as_mut().unwrap();
                let mut rep = iroh_docs::verif::replica(store, info);
                let res = rep.insert_remote_entry(se, w.peers[0], ContentStatus::Missing).await;
                drop(rep);
                let (r, removed) = match &res {
                    Ok(n) => ("ok".to_string(), *n as i64),
                    Err(e) => (insert_error_class(e).to_string(), -1),
                };
                json!({"ev":"Put","d":d,"path":"remote","e":pe,"res":r,"removed":removed})
            }
            "peer" | "peerpos" => {
                let p = if kind == "peer" {
                    op["p"].as_u64().unwrap() as usize
                } else {
                    // a position of the currently remembered list (newest first)
                    let cur: Vec<usize> = match self.store.as_mut().unwrap().get_sync_peers(&self.t.id(d)) {
                        Ok(Some(it)) => it.map(|p| w.peer_rank(&p) as usize).collect(),
                        _ => vec![],
                    };
                    if cur.is_empty() {
                        1
                    } else {
                        match op["pos"].as_str().unwrap() {
                            "oldest" => cur[cur.len() - 1],
                            "newest" => cur[0],
                            _ => cur[cur.len() / 2],
                        }
                    }
                };
                // registrations are ordered by a nanosecond clock in the store
                std::thread::sleep(std::time::Duration::from_micros(2));
                let res = self.store.as_mut().unwrap().register_useful_peer(self.t.id(d), w.peers[p - 1]);
                json!({"ev":"Peer","d":d,"p":p,"res": match res { Ok(_) => "ok".to_string(), Err(e) => anyhow_class(&e) }})
            }
            "policy" => {
                let res = self.store.as_mut().unwrap().set_download_policy(&self.t.id(d), policy_of(op));
                json!({"ev":"Policy","d":d,"kind":op["kind"],"filters":op["filters"],
                       "res": match res { Ok(_) => "ok".to_string(), Err(e) => anyhow_class(&e) }})
            }
            "flush" => {
                let res = self.store.as_mut().unwrap().flush();
                json!({"ev":"Flush","d":0,"res": if res.is_ok() {"ok"} else {"err"}})
            }
            "getmany" => {
                // a snapshot read: commits the open write transaction as a side effect
                let n = self.store.as_mut().unwrap().get_many(self.t.id(d), Query::all()).map(|it| it.count()).unwrap_or(0);
                json!({"ev":"GetMany","d":d,"res":"ok","n":n})
            }
            "remove" => {
                let res = self.store.as_mut().unwrap().remove_replica(&self.t.id(d));
                json!({"ev":"Remove","d":d,"res": match res { Ok(_) => "ok".to_string(), Err(e) => anyhow_class(&e) }})
            }
            "plant" => {
                // A record of a document for which no secret exists (synthetic neighbour id), written straight into the
                // database file together with its index and head rows: the only way to have *entries* in documents whose
                // ids are numerically adjacent (..FE / ..FF / carry successor).  Environment action, file stores only.
                let path = self.path.clone()?;
                self.infos.clear();
                drop(self.store.take());
                let e = &op["e"];
                let id = self.t.id(d).to_bytes();
                let author = w.author(e["a"].as_i64().unwrap()).id().to_bytes();
                let key = key_of(&e["k"]);
                let ts = e["ts"].as_u64().unwrap();
                let hash = *w.hash(e["h"].as_i64().unwrap()).as_bytes();
                let len = e["len"].as_u64().unwrap();
                {
                    type RecordsId<'a> = (&'a [u8; 32], &'a [u8; 32], &'a [u8]);
                    type RecordsValue<'a> = (u64, &'a [u8; 64], &'a [u8; 64], u64, &'a [u8; 32]);
                    const RECORDS: redb::TableDefinition<RecordsId, RecordsValue> = redb::TableDefinition::new("records-1");
                    const BY_KEY: redb::TableDefinition<(&[u8; 32], &[u8], &[u8; 32]), ()> = redb::TableDefinition::new("records-by-key-1");
                    const LATEST: redb::TableDefinition<(&[u8; 32], &[u8; 32]), (u64, &[u8])> = redb::TableDefinition::new("latest-by-author-1");
                    let db = redb::Database::create(&path).expect("open redb");
                    let tx = db.begin_write().expect("begin");
                    {
                        let mut records = tx.open_table(RECORDS).expect("records");
                        let mut by_key = tx.open_table(BY_KEY).expect("bykey");
                        let mut latest = tx.open_table(LATEST).expect("latest");
                        records.insert((&id, &author, key.as_slice()), (ts, &[1u8; 64], &[2u8; 64], len, &hash)).expect("ins");
                        by_key.insert((&id, key.as_slice(), &author), ()).expect("ins");
                        let newer = latest.get((&id, &author)).expect("get").map(|v| v.value().0 >= ts).unwrap_or(false);
                        if !newer {
                            latest.insert((&id, &author), (ts, key.as_slice())).expect("ins");
                        }
                    }
                    tx.commit().expect("commit");
                }
                let res = Store::persistent(&path);
                let ok = res.is_ok();
                self.store = Some(res.unwrap_or_else(|_| Store::memory()));
                json!({"ev":"Plant","d":d,"e":e.clone(),"res": if ok {"ok"} else {"err"}})
            }
            "reopen" | "dropderived" => {
                let path = self.path.clone()?;
                self.infos.clear();
                drop(self.store.take());
                let mut dropped = vec![];
                if kind == "dropderived" {
                    let which = op["which"].as_str().unwrap();
                    let db = redb::Database::create(&path).expect("open redb");
                    let tx = db.begin_write().expect("begin");
                    let names: Vec<String> = tx.list_tables().unwrap().map(|h| h.name().to_string()).collect();
                    for h in tx.list_tables().unwrap() {
                        let n = h.name().to_string();
                        if (n == "latest-by-author-1" && which != "bykey") || (n == "records-by-key-1" && which != "latest") {
                            tx.delete_table(h).expect("delete table");
                            dropped.push(n);
                        }
                    }
                    let _ = names;
                    // "empty": the table is there again but empty - what an open leaves behind that created the current
                    // set of tables and was killed before the populate-if-empty migration committed
                    if op["empty"] == true {
                        const LATEST: redb::TableDefinition<(&[u8; 32], &[u8; 32]), (u64, &[u8])> = redb::TableDefinition::new("latest-by-author-1");
                        const BY_KEY: redb::TableDefinition<(&[u8; 32], &[u8], &[u8; 32]), ()> = redb::TableDefinition::new("records-by-key-1");
                        for n in dropped.iter() {
                            if n == "latest-by-author-1" {
                                let _ = tx.open_table(LATEST).expect("create empty heads table");
                            } else {
                                let _ = tx.open_table(BY_KEY).expect("create empty by-key table");
                            }
                        }
                    }
                    tx.commit().expect("commit");
                    drop(db);
                }
                let res = Store::persistent(&path);
                let ok = res.is_ok();
                self.store = Some(res.unwrap_or_else(|_| Store::memory()));
                json!({"ev": if kind == "reopen" {"Reopen"} else {"DropDerived"}, "which": op["which"].as_str().unwrap_or(""), "dropped": dropped,
                       "res": if ok {"ok"} else {"err"}})
            }
            other => panic!("unknown docs op {other}"),
        };
        Some(ev)
    }

    pub fn observe_pub(&mut self) -> (Value, Value) {
        self.observe()
    }
    pub fn store_mut(&mut self) -> &mut Store {
        self.store.as_mut().unwrap()
    }
}

pub fn gen_history(r: &mut Rng, t: &DocTable, len: usize, file: bool, plant: bool) -> Vec<Value> {
    let mut ops = vec![];
    let real = t.real();
    let n = t.n();
    let mut now = 5u64;
    let pols = [
        json!({"kind":"only","filters":[["prefix",[0]]]}),
        json!({"kind":"except","filters":[["exact",[1]],["prefix",[255]]]}),
        json!({"kind":"except","filters":[]}),
        json!({"kind":"only","filters":[["exact",[]],["prefix",[0,255]]]}),
    ];
    // most histories start with some documents imported and opened so that writes apply
    if r.chance(3, 4) {
        for d in &real {
            if r.chance(3, 4) {
                ops.push(json!({"op":"import","d":d,"kind": if r.chance(4,5) {"write"} else {"read"}}));
                if r.chance(4, 5) {
                    ops.push(json!({"op":"open","d":d}));
                }
            }
        }
    }
    // file stores: sometimes the synthetic neighbour documents (ids ..FE, ..FF, carry successor, all-0xFF) hold entries
    if plant && file && r.chance(1, 2) {
        let synth: Vec<usize> = (1..=n).filter(|d| !real.contains(d)).collect();
        for (i, d) in synth.iter().enumerate() {
            if r.chance(2, 3) {
                for j in 0..1 + r.below(2) {
                    let h = *r.pick(&[1i64, 2, 3]);
                    ops.push(json!({"op":"plant","d":d,"e":{"a":1 + r.below(2),"k":[i, j, 7],"ts":1 + r.below(6),"h":h,"len":1}}));
                }
            }
        }
    }
    for _ in 0..len {
        now += 1;
        let x = r.below(100);
        let any = 1 + r.below(n);
        let rd = real[r.below(real.len())];
        let op = if x < 12 {
            json!({"op": if r.chance(1,3) {"listimport"} else {"import"}, "authors": r.chance(1,2),
                   "d": if r.chance(1,2) {rd} else {any}, "kind": if r.chance(1,2) {"write"} else {"read"},
                   "via": if r.chance(1,3) {"new_replica"} else {"import_namespace"}})
        } else if x < 24 {
            json!({"op":"open","d": if r.chance(3,4) {rd} else {any}})
        } else if x < 30 {
            json!({"op":"close","d": if r.chance(3,4) {rd} else {any}})
        } else if x < 50 {
            let ts = 1 + r.below(6) as u64;
            json!({"op":"local","d":rd,"a":1 + r.below(2),"k":key_json(KEYS[r.below(6)]),"h":*r.pick(&[-1i64,1,2]),"now":ts})
        } else if x < 56 {
            json!({"op":"delete","d":rd,"a":1 + r.below(2),"k":key_json(KEYS[r.below(6)]),"now":1 + r.below(6) as u64})
        } else if x < 66 {
            let h = *r.pick(&[0i64, 1, 2]);
            json!({"op":"remote","d":rd,"e":{"a":1 + r.below(2),"k":key_json(KEYS[r.below(6)]),"ts":1 + r.below(6),"h":h,"len": if h == 0 {0} else {1}}})
        } else if x < 78 {
            json!({"op":"peer","d":any,"p":1 + r.below(7)})
        } else if x < 86 {
            let mut p = pols[r.below(pols.len())].clone();
            p["op"] = json!("policy");
            p["d"] = json!(any);
            p
        } else if x < 94 {
            json!({"op":"remove","d":any})
        } else if file && x < 97 {
            json!({"op":"reopen"})
        } else if file {
            json!({"op":"dropderived","which": *r.pick(&["latest","bykey","both"]), "empty": r.chance(1, 3)})
        } else {
            json!({"op":"open","d":rd})
        };
        let mut op = op;
        if !matches!(op["op"].as_str(), Some("reopen") | Some("dropderived")) && r.chance(1, 6) {
            op["pre"] = json!(*r.pick(&["list", "listauthors", "write"]));
        }
        ops.push(op);
    }
    ops
}

/// Histories dominated by peer registrations on two documents (C17): every position of the list gets refreshed
/// (the schedule names list positions; `peerpos` ops are resolved against the observed list at run time).
pub fn gen_peer_history(r: &mut Rng, t: &DocTable, len: usize, file: bool) -> Vec<Value> {
    let real = t.real();
    let mut ops = vec![];
    for d in &real[..2] {
        ops.push(json!({"op":"import","d":d,"kind": if r.chance(1,2) {"write"} else {"read"}}));
    }
    for _ in 0..len {
        let d = real[r.below(2)];
        let x = r.below(100);
        ops.push(if x < 35 {
            json!({"op":"peer","d":d,"p":1 + r.below(7)})
        } else if x < 60 {
            json!({"op":"peerpos","d":d,"pos":"oldest"})
        } else if x < 70 {
            json!({"op":"peerpos","d":d,"pos":"newest"})
        } else if x < 82 {
            json!({"op":"peerpos","d":d,"pos":"middle"})
        } else if x < 88 {
            json!({"op":"peer","d":1 + r.below(t.n()),"p":1 + r.below(7)})
        } else if x < 92 {
            json!({"op":"remove","d":d})
        } else if x < 95 {
            json!({"op":"import","d":d,"kind":"read"})
        } else if file {
            json!({"op":"reopen"})
        } else {
            json!({"op":"peer","d":d,"p":1 + r.below(7)})
        });
    }
    ops
}

pub fn run(w: &World, seed: u64, rng: &mut Rng, schedules: Vec<Value>, n: usize, plant: bool, dir: &Path, trace: &mut Trace, sum: &mut Summary) {
    let rt = tokio::runtime::Builder::new_current_thread().enable_all().build().unwrap();
    let t = DocTable::new(w);
    let mut hist: Vec<(Vec<Value>, bool)> = schedules
        .into_iter()
        .map(|s| (s["ops"].as_array().cloned().unwrap_or_default(), s["backend"] == "file"))
        .collect();
    for i in 0..n {
        let file = i % 2 == 0;
        let len = if i % 3 == 0 { 12 } else { 40 };
        // every 4th history concentrates on the useful-peer lists
        if i % 4 == 3 {
            hist.push((gen_peer_history(rng, &t, 40, file), file));
        } else {
            hist.push((gen_history(rng, &t, len, file, plant), file));
        }
    }
    for (i, (ops, file)) in hist.iter().enumerate() {
        let path = if *file {
            let p = dir.join(format!("docs-{i}.redb"));
            let _ = std::fs::remove_file(&p);
            Some(p)
        } else {
            None
        };
        let mut run = DocsRun::new(w, path.clone());
        let (docs0, hashes0) = run.observe();
        trace.emit(json!({"ev":"Reset","run":i,"seed":seed,"ops":ops,"backend": if *file {"file"} else {"mem"},
                          "ndocs": t.n(), "real": t.real(), "docs": docs0, "hashes": hashes0}));
        sum.add("histories", 1);
        // Observing a store commits its open write transaction.  So that behaviour which depends on what is still
        // uncommitted gets sampled, the store under test runs up to three calls in a row WITHOUT being looked at, while a
        // shadow store (same code, same history) is observed after every call and lends its observation to the calls the
        // store under test was not observed after.  Two stores running the same code can only differ here if the code is
        // sensitive to where commits fall - which no property allows.
        let spath = path.as_ref().map(|p| p.with_extension("shadow.redb"));
        if let Some(sp) = &spath {
            let _ = std::fs::remove_file(sp);
        }
        let mut shadow = DocsRun::new(w, spath.clone());
        let mut pending = 0usize;
        for (j, op) in ops.iter().enumerate() {
            let envop = matches!(op["op"].as_str(), Some("plant") | Some("dropderived") | Some("reopen"));
            let unobserved = !envop && pending < 3 && j + 1 < ops.len() && rng.chance(1, 3);
            let sh = rt.block_on(futures_lite::future::FutureExt::catch_unwind(std::panic::AssertUnwindSafe(shadow.step(op))));
            let res = if unobserved {
                let r = rt.block_on(futures_lite::future::FutureExt::catch_unwind(std::panic::AssertUnwindSafe(run.exec(op))));
                match (r, sh) {
                    (Ok(Some(mut ev)), Ok(Some(shev))) => {
                        pending += 1;
                        ev["docs"] = shev["docs"].clone();
                        ev["hashes"] = shev["hashes"].clone();
                        ev["open"] = json!(run.infos.keys().copied().collect::<Vec<usize>>());
                        ev["unobserved"] = json!(true);
                        sum.add("unobserved_calls", 1);
                        Ok(Some(ev))
                    }
                    // the shadow has nothing to lend (it skipped the call or panicked): look at the store itself
                    (Ok(Some(mut ev)), _) => {
                        pending = 0;
                        let (docs, hashes) = run.observe();
                        ev["docs"] = docs;
                        ev["hashes"] = hashes;
                        ev["open"] = json!(run.infos.keys().copied().collect::<Vec<usize>>());
                        Ok(Some(ev))
                    }
                    (r, _) => r,
                }
            } else {
                pending = 0;
                rt.block_on(futures_lite::future::FutureExt::catch_unwind(std::panic::AssertUnwindSafe(run.step(op))))
            };
            match res {
                Ok(Some(ev)) => {
                    sum.add(&format!("ev_{}", ev["ev"].as_str().unwrap()), 1);
                    trace.emit(ev);
                }
                Ok(None) => {}
                Err(_) => {
                    trace.emit(json!({"ev":"PANIC","op":op}));
                    break;
                }
            }
        }
        drop(shadow);
        if let Some(sp) = spath {
            let _ = std::fs::remove_file(sp);
        }
        drop(run);
        if let Some(p) = path {
            let _ = std::fs::remove_file(p);
        }
    }
    // ---- policy probes (C15): DownloadPolicy::matches and the textual form of filters ----
    trace.emit(json!({"ev":"Reset","run":"probes","seed":seed,"ops":[],"backend":"mem","ndocs":0,"real":[],"docs":[],"hashes":[]}));
    let samples: Vec<Vec<u8>> = vec![vec![], vec![0], vec![0, 255], vec![1], vec![255], b"a:b".to_vec(), b"utf8:x".to_vec(),
        vec![0xc3, 0x28], vec![0xff, 0xfe], b"hex:00".to_vec(), "\u{e9}t\u{e9}".as_bytes().to_vec(), vec![b':'], vec![0, b':', 200],
        // valid UTF-8 that a printer might be tempted to escape: backslashes, quotes, control characters, DEL, NUL
        b"assets\\img\\".to_vec(), b"it's".to_vec(), b"say \"hi\"".to_vec(), b"line\nbreak\ttab".to_vec(), vec![0], vec![b'a', 0x7f, b'b'],
        b"\\x41\\u{e9}".to_vec(), b"{}%\r".to_vec()];
    for i in 0..(n * 6) {
        let nf = rng.below(4);
        let filters: Vec<Value> = (0..nf)
            .map(|_| json!([if rng.chance(1, 2) {"prefix"} else {"exact"}, key_json(&samples[rng.below(samples.len())])]))
            .collect();
        let pol = json!({"kind": if rng.chance(1, 2) {"only"} else {"except"}, "filters": filters});
        let mut key = samples[rng.below(samples.len())].clone();
        if rng.chance(1, 2) {
            key.push(rng.below(256) as u8);
        }
        let e = w.signed(1, &key, 1, 1, 1);
        let res = policy_of(&pol).matches(e.entry());
        trace.emit(json!({"ev":"Match","pol":pol,"key":key_json(&key),"res":res}));
        sum.add("match_calls", 1);
        // textual round trip
        let mut bytes = samples[i % samples.len()].clone();
        if rng.chance(1, 3) {
            bytes.extend((0..rng.below(4)).map(|_| rng.below(256) as u8));
        }
        let f = if rng.chance(1, 2) { FilterKind::Prefix(bytes.clone().into()) } else { FilterKind::Exact(bytes.clone().into()) };
        let text = f.to_string();
        let back: Result<FilterKind, _> = text.parse();
        let (bk, bb, r) = match &back {
            Ok(FilterKind::Prefix(b)) => ("prefix", key_json(b), "ok"),
            Ok(FilterKind::Exact(b)) => ("exact", key_json(b), "ok"),
            Err(_) => ("", json!([]), "err"),
        };
        trace.emit(json!({"ev":"Filter","kind": if matches!(f, FilterKind::Prefix(_)) {"prefix"} else {"exact"},
                          "bytes":key_json(&bytes),"back_kind":bk,"back_bytes":bb,"res":r}));
        sum.add("filter_roundtrips", 1);
    }
    iroh_docs::verif::set_clock(0);
}
