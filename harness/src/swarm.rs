//! Swarm driver (C04): N real file-backed replicas of one document; local writes and deletions with skewed
//! clocks, gossip deliveries (= insert_remote_entry, as receive_loop does) with loss / duplication / reordering,
//! real reconciliation sessions cut after message k or run to completion, restarts (drop the store, reopen the
//! file), and a closing phase of complete sessions over a chain until nothing is transferred.

use std::path::Path;

use iroh_docs::{store::Store, sync::SignedEntry, Capability, ContentStatus, ReplicaInfo, SyncOutcome};
use serde_json::{json, Value};

use crate::{replica::key_of, world::*};

struct Rep {
    path: std::path::PathBuf,
    store: Option<Store>,
    info: Option<ReplicaInfo>,
}

impl Rep {
    fn open(w: &World, path: &Path) -> Self {
        let mut store = Store::persistent(path).expect("open");
        store.import_namespace(Capability::Write(w.ns.clone())).unwrap();
        let info = store.load_replica_info(&w.nsid()).unwrap();
        Rep { path: path.to_path_buf(), store: Some(store), info: Some(info) }
    }
    fn restart(&mut self, w: &World) {
        drop(self.info.take());
        drop(self.store.take());
        let mut store = Store::persistent(&self.path).expect("reopen");
        self.info = Some(store.load_replica_info(&w.nsid()).unwrap());
        self.store = Some(store);
    }
    fn contents(&mut self, w: &World) -> Value {
        w.contents(self.store.as_mut().unwrap(), w.nsid())
    }
}

/// run the real message exchange between a (initiator) and b for at most `max_msgs` messages;
/// returns (messages exchanged, completed)
async fn session(reps: &mut [Rep], a: usize, b: usize, max_msgs: usize, w: &World) -> (usize, bool) {
    let mut oa = SyncOutcome::default();
    let mut ob = SyncOutcome::default();
    let first = {
        let r = &mut reps[a];
        let mut rep = iroh_docs::verif::replica(r.store.as_mut().unwrap(), r.info.as_mut().unwrap());
        rep.sync_initial_message()
    };
    let Ok(first) = first else { return (0, false) };
    let mut wire = Some(first);
    let mut n = 0;
    let mut turn_b = true;
    while let Some(m) = wire.take() {
        if n >= max_msgs {
            return (n, false);
        }
        n += 1;
        let (idx, out, from) = if turn_b { (b, &mut ob, w.peers[0]) } else { (a, &mut oa, w.peers[1]) };
        let r = &mut reps[idx];
        let mut rep = iroh_docs::verif::replica(r.store.as_mut().unwrap(), r.info.as_mut().unwrap());
        match rep.sync_process_message(m, from, out).await {
            Ok(Some(reply)) => wire = Some(reply),
            Ok(None) => {}
            Err(_) => return (n, false),
        }
        turn_b = !turn_b;
    }
    (n, true)
}

pub fn gen_schedule(r: &mut Rng, nrep: usize, len: usize) -> Vec<Value> {
    let keys: &[&[u8]] = &[&[], &[0], &[0, 255], &[0, 1], &[1], &[255]];
    let mut ops = vec![];
    // per-replica clock skew within the future bound
    let skew: Vec<u64> = (0..nrep).map(|_| r.below(4) as u64).collect();
    let mut t = 10u64;
    for _ in 0..len {
        t += r.below(2) as u64;
        let x = r.below(100);
        let rep = 1 + r.below(nrep);
        let other = 1 + (rep - 1 + 1 + r.below(nrep - 1)) % nrep;
        ops.push(if x < 30 {
            json!({"op":"write","r":rep,"a":1 + r.below(2),"k":key_json(keys[r.below(keys.len())]),"h":*r.pick(&[-1i64,1,2]),"now":t + skew[rep - 1]})
        } else if x < 40 {
            json!({"op":"delete","r":rep,"a":1 + r.below(2),"k":key_json(keys[r.below(keys.len())]),"now":t + skew[rep - 1]})
        } else if x < 68 {
            // deliver some pending broadcast (index resolved at run time modulo the bag size); dup = keep it pending
            json!({"op":"deliver","pick":r.below(1000),"dup":r.chance(1,4),"now":t})
        } else if x < 76 {
            json!({"op":"drop","pick":r.below(1000)})
        } else if x < 88 {
            json!({"op":"session","a":rep,"b":other,"max":1 + r.below(4),"now":t})
        } else if x < 94 {
            json!({"op":"session","a":rep,"b":other,"max":64,"now":t})
        } else {
            json!({"op":"restart","r":rep})
        });
    }
    ops
}

pub fn run(w: &World, seed: u64, rng: &mut Rng, schedules: Vec<Value>, n: usize, dir: &Path, trace: &mut Trace, sum: &mut Summary) {
    let rt = tokio::runtime::Builder::new_current_thread().enable_all().build().unwrap();
    let mut scheds: Vec<Value> = schedules;
    for i in 0..n {
        let nrep = 2 + (i % 4);
        scheds.push(json!({"nrep": nrep, "ops": gen_schedule(rng, nrep, if i % 3 == 0 { 12 } else { 36 })}));
    }
    for (si, sc) in scheds.iter().enumerate() {
        let nrep = sc["nrep"].as_u64().unwrap() as usize;
        let mut reps: Vec<Rep> = (0..nrep)
            .map(|i| {
                let p = dir.join(format!("swarm-{i}.redb"));
                let _ = std::fs::remove_file(&p);
                Rep::open(w, &p)
            })
            .collect();
        trace.emit(json!({"ev":"Reset","run":si,"seed":seed,"nrep":nrep,"ops":sc["ops"]}));
        sum.add("histories", 1);
        // pending broadcasts: (entry, projected entry, to)
        let mut bag: Vec<(SignedEntry, Value, usize)> = vec![];
        let ns = w.nsid();
        rt.block_on(async {
            for op in sc["ops"].as_array().unwrap() {
                iroh_docs::verif::set_clock(op["now"].as_u64().unwrap_or(1000));
                match op["op"].as_str().unwrap() {
                    k @ ("write" | "delete") => {
                        let r = op["r"].as_u64().unwrap() as usize;
                        let a = op["a"].as_i64().unwrap();
                        let key = key_of(&op["k"]);
                        let h = op["h"].as_i64().unwrap_or(0);
                        let now = op["now"].as_u64().unwrap();
                        let res = {
                            let rp = &mut reps[r - 1];
                            let mut rep = iroh_docs::verif::replica(rp.store.as_mut().unwrap(), rp.info.as_mut().unwrap());
                            if k == "write" { rep.insert(&key, w.author(a), w.hash(h), 1).await } else { rep.delete_prefix(&key, w.author(a)).await }
                        };
                        let e = json!({"a":a,"k":key_json(&key),"ts":now,"h": if k == "write" {h} else {0},"len": if k == "write" {1} else {0}});
                        if res.is_ok() {
                            // the entry as signed by the replica, for broadcast (what on_replica_event gossips)
                            let se = reps[r - 1].store.as_mut().unwrap().get_exact(ns, w.author(a).id(), &key, true).ok().flatten();
                            if let Some(se) = se {
                                for to in 1..=nrep {
                                    if to != r {
                                        bag.push((se.clone(), w.proj_entry(&se), to));
                                    }
                                }
                            }
                        }
                        let st = reps[r - 1].contents(w);
                        trace.emit(json!({"ev":"Write","r":r,"e":e,"res": match &res { Ok(_) => "ok".to_string(), Err(e) => insert_error_class(e).to_string() },"st":st}));
                    }
                    "deliver" => {
                        if bag.is_empty() {
                            continue;
                        }
                        let i = op["pick"].as_u64().unwrap() as usize % bag.len();
                        let (se, pe, to) = if op["dup"].as_bool().unwrap() { bag[i].clone() } else { bag.remove(i) };
                        let res = {
                            let rp = &mut reps[to - 1];
                            let mut rep = iroh_docs::verif::replica(rp.store.as_mut().unwrap(), rp.info.as_mut().unwrap());
                            rep.insert_remote_entry(se, w.peers[0], ContentStatus::Missing).await
                        };
                        let st = reps[to - 1].contents(w);
                        trace.emit(json!({"ev":"Deliver","r":to,"e":pe,"res": match &res { Ok(_) => "ok".to_string(), Err(e) => insert_error_class(e).to_string() },"st":st}));
                    }
                    "drop" => {
                        if !bag.is_empty() {
                            let i = op["pick"].as_u64().unwrap() as usize % bag.len();
                            bag.remove(i);
                        }
                    }
                    "session" => {
                        let a = op["a"].as_u64().unwrap() as usize;
                        let b = op["b"].as_u64().unwrap() as usize;
                        let (msgs, complete) = session(&mut reps, a - 1, b - 1, op["max"].as_u64().unwrap() as usize, w).await;
                        let (sa, sb) = (reps[a - 1].contents(w), reps[b - 1].contents(w));
                        trace.emit(json!({"ev":"Sess","a":a,"b":b,"msgs":msgs,"complete":complete,"stA":sa,"stB":sb}));
                        sum.add("sessions", 1);
                    }
                    "restart" => {
                        let r = op["r"].as_u64().unwrap() as usize;
                        reps[r - 1].restart(w);
                        let st = reps[r - 1].contents(w);
                        trace.emit(json!({"ev":"Restart","r":r,"st":st}));
                    }
                    other => panic!("unknown swarm op {other}"),
                }
            }
            // closing phase: complete sessions along the chain 1-2, 2-3, ... forwards and backwards until quiet
            iroh_docs::verif::set_clock(100_000);
            for round in 0..(2 * nrep) {
                let mut moved = false;
                let pairs: Vec<(usize, usize)> = if round % 2 == 0 { (1..nrep).map(|i| (i, i + 1)).collect() } else { (1..nrep).rev().map(|i| (i + 1, i)).collect() };
                for (a, b) in pairs {
                    let before = (reps[a - 1].contents(w), reps[b - 1].contents(w));
                    let (msgs, complete) = session(&mut reps, a - 1, b - 1, 1000, w).await;
                    let (sa, sb) = (reps[a - 1].contents(w), reps[b - 1].contents(w));
                    if before.0 != sa || before.1 != sb {
                        moved = true;
                    }
                    trace.emit(json!({"ev":"Sess","a":a,"b":b,"msgs":msgs,"complete":complete,"stA":sa,"stB":sb}));
                }
                if !moved && round >= 1 {
                    break;
                }
            }
            let sts: Vec<Value> = reps.iter_mut().map(|r| r.contents(w)).collect();
            trace.emit(json!({"ev":"Closed","sts":sts}));
        });
        drop(reps);
        for i in 0..nrep {
            let _ = std::fs::remove_file(dir.join(format!("swarm-{i}.redb")));
        }
    }
    iroh_docs::verif::set_clock(0);
}
