//! AuthorHeads driver (C13): encode under every interesting size limit, decode, news detection.
use iroh_docs::{AuthorHeads, AuthorId};
use serde_json::{json, Value};

use crate::world::*;

fn heads_json(h: &[(i64, u64)]) -> Value {
    Value::Array(h.iter().map(|(a, t)| json!({"a": a, "ts": t})).collect())
}

fn mk(w: &World, h: &[(i64, u64)]) -> AuthorHeads {
    let mut out = AuthorHeads::default();
    for (a, t) in h {
        out.insert(w.author(*a).id(), *t);
    }
    out
}

fn proj(w: &World, h: &AuthorHeads) -> Value {
    let mut v: Vec<(i64, u64)> = h.iter().map(|(a, t)| (w.author_rank(&a.to_bytes()), *t)).collect();
    v.sort();
    heads_json(&v)
}

pub fn run(w: &World, rng: &mut Rng, n: usize, trace: &mut Trace, sum: &mut Summary) {
    let ts_pool: &[u64] = &[1, 2, 3, 5, 127, 128, 129, 16383, 16384, 70000];
    trace.emit(json!({"ev":"Reset"}));
    let nauth = w.authors.len();
    for i in 0..n {
        // a head set; every third one forces shared timestamps
        let k = rng.below(nauth + 1);
        let mut authors: Vec<i64> = (1..=nauth as i64).collect();
        for j in (1..authors.len()).rev() {
            authors.swap(j, rng.below(j + 1));
        }
        let shared = *rng.pick(ts_pool);
        let hs: Vec<(i64, u64)> = authors[..k]
            .iter()
            .map(|a| (*a, if i % 3 == 0 && rng.chance(2, 3) { shared } else { *rng.pick(ts_pool) }))
            .collect();
        let mut sorted = hs.clone();
        sorted.sort();
        let heads = mk(w, &hs);
        // limits: none, and values around every multiple of an item size
        let full = heads.encode(None).map(|b| b.len()).unwrap_or(0);
        let mut limits: Vec<i64> = vec![-1, 1, 2, full as i64, full as i64 + 1];
        for _ in 0..4 {
            limits.push(1 + rng.below(full + 3) as i64);
        }
        for limit in limits {
            let res = std::panic::catch_unwind(std::panic::AssertUnwindSafe(|| {
                heads.encode(if limit < 0 { None } else { Some(limit as usize) })
            }));
            let ev = match res {
                Err(_) => json!({"ev":"Encode","heads":heads_json(&sorted),"limit":limit,"res":"PANIC","enclen":0,"decoded":[]}),
                Ok(Err(_)) => json!({"ev":"Encode","heads":heads_json(&sorted),"limit":limit,"res":"err","enclen":0,"decoded":[]}),
                Ok(Ok(bytes)) => match AuthorHeads::decode(&bytes) {
                    Ok(d) => json!({"ev":"Encode","heads":heads_json(&sorted),"limit":limit,"res":"ok",
                                    "enclen":bytes.len(),"decoded":proj(w, &d)}),
                    Err(_) => json!({"ev":"Encode","heads":heads_json(&sorted),"limit":limit,"res":"decode-err",
                                     "enclen":bytes.len(),"decoded":[]}),
                },
            };
            trace.emit(ev);
            sum.add("encode_calls", 1);
        }
        // news detection against another random head set
        let k2 = rng.below(nauth + 1);
        let ours: Vec<(i64, u64)> = (1..=k2 as i64).map(|a| (a, *rng.pick(ts_pool))).collect();
        let o = mk(w, &ours);
        let count = heads.has_news_for(&o).map(|n| n.get()).unwrap_or(0);
        trace.emit(json!({"ev":"News","theirs":heads_json(&sorted),"ours":heads_json(&ours),"count":count}));
        sum.add("news_calls", 1);
    }
    // ---- large head sets (more than 127 authors: the length prefix of the encoding grows) with limits at exact
    //      item boundaries; author ids are arbitrary 32-byte strings ranked by byte order
    for round in 0..(n / 40).max(1) {
        let count = *rng.pick(&[126usize, 127, 128, 129, 130, 200, 300]);
        let mut ids: Vec<[u8; 32]> = (0..count).map(|_| rng.bytes32()).collect();
        ids.sort();
        ids.dedup();
        let shared = *rng.pick(ts_pool);
        let hs: Vec<(usize, u64)> = (0..ids.len())
            .map(|i| (i + 1, if round % 2 == 0 && rng.chance(1, 2) { shared } else { *rng.pick(ts_pool) }))
            .collect();
        let mut heads = AuthorHeads::default();
        for (i, t) in &hs {
            heads.insert(AuthorId::from(&ids[i - 1]), *t);
        }
        let hj = Value::Array(hs.iter().map(|(a, t)| json!({"a": a, "ts": t})).collect());
        // exact sizes of the k newest items, measured with postcard itself (not with iroh-docs code)
        let mut items: Vec<(u64, [u8; 32])> = hs.iter().map(|(i, t)| (*t, ids[i - 1])).collect();
        items.sort_by(|a, b| b.cmp(a));
        let size_of = |k: usize| postcard::to_stdvec(&items[..k].to_vec()).unwrap().len() as i64;
        let mut limits: Vec<i64> = vec![-1];
        for k in [1usize, 2, 126, 127, 128, 129, items.len() - 1, items.len()] {
            if k <= items.len() {
                let s = size_of(k);
                limits.extend([s - 1, s, s + 1]);
            }
        }
        for _ in 0..4 {
            limits.push(size_of(1 + rng.below(items.len())));
        }
        for limit in limits {
            if limit < 1 && limit != -1 {
                continue;
            }
            let res = std::panic::catch_unwind(std::panic::AssertUnwindSafe(|| {
                heads.encode(if limit < 0 { None } else { Some(limit as usize) })
            }));
            let proj_big = |d: &AuthorHeads| -> Value {
                let mut v: Vec<(usize, u64)> = d.iter().map(|(a, t)| (ids.binary_search(&a.to_bytes()).map(|i| i + 1).unwrap_or(0), *t)).collect();
                v.sort();
                Value::Array(v.iter().map(|(a, t)| json!({"a": a, "ts": t})).collect())
            };
            let ev = match res {
                Err(_) => json!({"ev":"Encode","heads":hj,"limit":limit,"res":"PANIC","enclen":0,"decoded":[]}),
                Ok(Err(_)) => json!({"ev":"Encode","heads":hj,"limit":limit,"res":"err","enclen":0,"decoded":[]}),
                Ok(Ok(bytes)) => match AuthorHeads::decode(&bytes) {
                    Ok(d) => json!({"ev":"Encode","heads":hj,"limit":limit,"res":"ok","enclen":bytes.len(),"decoded":proj_big(&d)}),
                    Err(_) => json!({"ev":"Encode","heads":hj,"limit":limit,"res":"decode-err","enclen":bytes.len(),"decoded":[]}),
                },
            };
            trace.emit(ev);
            sum.add("encode_calls", 1);
        }
    }
}
