//! Two-replica reconciliation sessions, message by message, on real stores (C01, C08).
//! Logs the full transcript and both stores after every step.

use std::path::Path;

use iroh_docs::{
    store::Store,
    sync::{ProtocolMessage, SyncOutcome},
    Capability, ContentStatus, ReplicaInfo,
};
use serde_json::{json, Value};

use crate::{
    replica::{key_of, proj_message, KEYS},
    world::*,
};

pub struct Side {
    pub store: Store,
    pub info: ReplicaInfo,
    pub outcome: SyncOutcome,
}

impl Side {
    pub fn new(w: &World, backend: &Backend) -> Self {
        let mut store = backend.open();
        store
            .import_namespace(Capability::Write(w.ns.clone()))
            .expect("import ns");
        let info = store.load_replica_info(&w.nsid()).expect("info");
        Side {
            store,
            info,
            outcome: SyncOutcome::default(),
        }
    }
    pub async fn fill(&mut self, w: &World, entries: &[Value]) {
        iroh_docs::verif::set_clock(1000);
        for e in entries {
            let se = w.signed(
                e["a"].as_i64().unwrap(),
                &key_of(&e["k"]),
                e["ts"].as_u64().unwrap(),
                e["h"].as_i64().unwrap(),
                e["len"].as_u64().unwrap(),
            );
            let mut rep = iroh_docs::verif::replica(&mut self.store, &mut self.info);
            let _ = rep
                .insert_remote_entry(se, w.peers[0], ContentStatus::Missing)
                .await;
        }
    }
    /// A past life of the document in the same store: it held `entries`, opened a session (computed its opening
    /// message), was closed and removed, and is created again - empty.  Nothing of the past may show in what follows.
    pub async fn past_life(&mut self, w: &World, entries: &[Value]) {
        self.fill(w, entries).await;
        let _ = self.init();
        self.store.close_replica(w.nsid());
        let _ = self.store.remove_replica(&w.nsid());
        self.store.import_namespace(Capability::Write(w.ns.clone())).expect("import ns");
        self.info = self.store.load_replica_info(&w.nsid()).expect("info");
    }
    pub fn init(&mut self) -> anyhow::Result<ProtocolMessage> {
        let mut rep = iroh_docs::verif::replica(&mut self.store, &mut self.info);
        rep.sync_initial_message()
    }
    pub async fn process(
        &mut self,
        msg: ProtocolMessage,
        from: [u8; 32],
    ) -> anyhow::Result<Option<ProtocolMessage>> {
        let mut rep = iroh_docs::verif::replica(&mut self.store, &mut self.info);
        rep.sync_process_message(msg, from, &mut self.outcome).await
    }
}

pub fn gen_set(r: &mut Rng, n_auth: usize, n_keys: usize, max_ts: u64, max: usize) -> Vec<Value> {
    let n = r.below(max + 1);
    (0..n)
        .map(|_| {
            let h = *r.pick(&[-1i64, 0, 1, 1, 2]);
            json!({"a": 1 + r.below(n_auth), "k": key_json(&crate::replica::pick_key(r, n_keys)),
                   "ts": 1 + r.below(max_ts as usize), "h": h, "len": if h == 0 {0} else {1}})
        })
        .collect()
}

/// One scenario: {a0:[entries], b0:[entries], cfg:[k,m], backend_a, backend_b}
pub async fn run_scenario(
    w: &World,
    sc: &Value,
    idx: usize,
    seed: u64,
    dir: &Path,
    trace: &mut Trace,
    sum: &mut Summary,
) {
    let cfg = (
        sc["cfg"][0].as_u64().unwrap_or(2) as usize,
        sc["cfg"][1].as_u64().unwrap_or(1) as usize,
    );
    iroh_docs::verif::set_sync_config(cfg.0, cfg.1);
    let mk_backend = |name: &str, which: &str| -> Backend {
        if name == "file" {
            let p = dir.join(format!("sess-{idx}-{which}.redb"));
            let _ = std::fs::remove_file(&p);
            Backend::File(p)
        } else {
            Backend::Mem
        }
    };
    let ba = mk_backend(sc["backend_a"].as_str().unwrap_or("mem"), "a");
    let bb = mk_backend(sc["backend_b"].as_str().unwrap_or("mem"), "b");
    let mut a = Side::new(w, &ba);
    let mut b = Side::new(w, &bb);
    if let Some(p) = sc["past_a"].as_array() {
        a.past_life(w, p).await;
    }
    if let Some(p) = sc["past_b"].as_array() {
        b.past_life(w, p).await;
    }
    a.fill(w, sc["a0"].as_array().unwrap()).await;
    b.fill(w, sc["b0"].as_array().unwrap()).await;
    // the receivers' clock during the sessions: usually far ahead of every entry, sometimes BEHIND most of them (entries
    // stamped ahead of the local clock by less than the ten-minute bound are valid and must be transferred all the same)
    let now = sc["now"].as_u64().unwrap_or(1000);
    iroh_docs::verif::set_clock(now);
    let ns = w.nsid();
    let peer_a = w.peers[0];
    let peer_b = w.peers[1];
    trace.emit(json!({"ev":"Reset","run":idx,"seed":seed,"sc":sc,"cfg":[cfg.0, cfg.1],
        "backend_a":ba.name(),"backend_b":bb.name(),
        "A0": w.contents(&mut a.store, ns), "B0": w.contents(&mut b.store, ns)}));
    sum.add("histories", 1);
    // two sessions back to back, A initiates
    'sessions: for phase in 1..=2 {
        a.outcome = SyncOutcome::default();
        b.outcome = SyncOutcome::default();
        let first = match a.init() {
            Ok(m) => m,
            Err(_) => {
                trace.emit(json!({"ev":"SInit","side":"A","phase":phase,"res":"err","msg":[],
                                  "st": w.contents(&mut a.store, ns)}));
                break;
            }
        };
        trace.emit(json!({"ev":"SInit","side":"A","phase":phase,"res":"ok","msg":proj_message(w, &first),
                          "st": w.contents(&mut a.store, ns)}));
        let mut wire = Some(first);
        let mut turn_b = true;
        let mut rounds = 0;
        while let Some(msg) = wire.take() {
            rounds += 1;
            if rounds > 64 {
                trace.emit(json!({"ev":"SStuck","phase":phase}));
                break 'sessions;
            }
            let (side, name, from) = if turn_b { (&mut b, "B", peer_a) } else { (&mut a, "A", peer_b) };
            let incoming = proj_message(w, &msg);
            let fut = side.process(msg, from);
            let res = futures_lite::future::FutureExt::catch_unwind(std::panic::AssertUnwindSafe(fut)).await;
            let res = match res {
                Err(_) => {
                    trace.emit(json!({"ev":"PANIC","side":name,"parts":incoming}));
                    break 'sessions;
                }
                Ok(r) => r,
            };
            let (r, reply) = match &res {
                Ok(Some(m)) => ("ok", proj_message(w, m)),
                Ok(None) => ("ok", json!([])),
                Err(_) => ("err", json!([])),
            };
            trace.emit(json!({"ev":"SProc","side":name,"phase":phase,"now":now,"from": if turn_b {1} else {2},
                "parts":incoming,"res":r,"reply":reply,"cfg":[cfg.0,cfg.1],
                "recv":side.outcome.num_recv,"sent":side.outcome.num_sent,
                "st": w.contents(&mut side.store, ns)}));
            sum.add("messages", 1);
            match res {
                Ok(Some(m)) => wire = Some(m),
                _ => {}
            }
            turn_b = !turn_b;
        }
        trace.emit(json!({"ev":"SDone","phase":phase,"rounds":rounds,
            "recvA":a.outcome.num_recv,"sentA":a.outcome.num_sent,
            "recvB":b.outcome.num_recv,"sentB":b.outcome.num_sent,
            "stA": w.contents(&mut a.store, ns), "stB": w.contents(&mut b.store, ns)}));
    }
    drop(a);
    drop(b);
    for which in ["a", "b"] {
        let _ = std::fs::remove_file(dir.join(format!("sess-{idx}-{which}.redb")));
    }
    iroh_docs::verif::set_sync_config(0, 0);
}

pub fn gen_scenarios(r: &mut Rng, n: usize) -> Vec<Value> {
    let cfgs: &[(u64, u64)] = &[(2, 1), (2, 1), (2, 2), (3, 1), (3, 2), (4, 1), (2, 3), (5, 3), (4, 2), (3, 3)];
    (0..n)
        .map(|i| {
            let small = i % 3 == 0;
            // every 10th scenario: big stores (deep recursion, many pivots)
            let (na, nk, mt, mx) = if i % 10 == 9 { (3, KEYS.len(), 6, 60) } else if small { (1, 4, 2, 3) } else if i % 3 == 1 { (2, 8, 3, 7) } else { (3, KEYS.len(), 5, 14) };
            let nextra = if nk >= 8 { 1 + r.below(4) } else { 0 };
            crate::replica::reseed_extra_keys(r, nextra);
            let cfg = cfgs[r.below(cfgs.len())];
            let mut a0 = gen_set(r, na, nk, mt, mx);
            let b0 = gen_set(r, na, nk, mt, mx);
            if i % 5 == 0 {
                // mostly-equal stores: recursion goes deep
                a0 = b0.clone();
                a0.extend(gen_set(r, na, nk, mt, 2));
            }
            let mut sc = json!({"a0":a0,"b0":b0,"cfg":[cfg.0,cfg.1],
                   "backend_a": if i % 4 == 1 {"file"} else {"mem"},
                   "backend_b": if i % 4 == 2 {"file"} else {"mem"}});
            // every 6th scenario: one side's document had a past life in the same store (often holding what the peer holds
            // now, so that anything remembered from it would look "already in sync"), and starts out empty or nearly so
            if i % 7 == 3 {
                sc["now"] = json!(1 + r.below(3));
            }
            if i % 6 == 4 {
                let side = if r.chance(2, 3) { "a" } else { "b" };
                let other = if side == "a" { "b0" } else { "a0" };
                let past = if r.chance(2, 3) { sc[other].clone() } else { json!(gen_set(r, na, nk, mt, mx)) };
                sc[format!("past_{side}")] = past;
                if r.chance(1, 2) {
                    sc[format!("{side}0")] = json!([]);
                }
            }
            sc
        })
        .collect()
}
