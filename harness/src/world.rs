//! Shared helpers: identities with byte-order ranks, hash table around `Hash::EMPTY`,
//! entry forging through serde, projection of real values to the abstract values of the
//! TLA+ specification, and the ndjson trace writer.
//!
//! The driver contains no oracle: it performs actions and records what the code returned.

use std::{
    collections::BTreeMap,
    io::Write,
    path::{Path, PathBuf},
};

use iroh_blobs::Hash;
use iroh_docs::{
    store::{Query, Store},
    sync::{Entry, InsertError, Record, RecordIdentifier, SignedEntry, ValidationFailure},
    Author, AuthorId, ContentStatus, NamespaceId, NamespaceSecret,
};
use rand::{rngs::StdRng, RngExt, SeedableRng};
use serde_json::{json, Value};

pub const MAX_SHIFT: u64 = 600_000_000;

/// Small deterministic RNG wrapper (seeded from VERIF_SEED).
pub struct Rng(pub StdRng);
impl Rng {
    pub fn new(seed: u64) -> Self {
        Rng(StdRng::seed_from_u64(seed))
    }
    pub fn below(&mut self, n: usize) -> usize {
        if n == 0 {
            0
        } else {
            self.0.random_range(0..n)
        }
    }
    pub fn chance(&mut self, num: u32, den: u32) -> bool {
        self.0.random_range(0..den) < num
    }
    pub fn pick<'a, T>(&mut self, v: &'a [T]) -> &'a T {
        &v[self.below(v.len())]
    }
    pub fn bytes32(&mut self) -> [u8; 32] {
        let mut b = [0u8; 32];
        self.0.fill(&mut b);
        b
    }
}

/// The identities of a run. All ranks are positions in the byte order of the real 32-byte ids.
pub struct World {
    pub ns: NamespaceSecret,
    /// a second namespace (for foreign-namespace entries and multi-document runs)
    pub other_ns: Vec<NamespaceSecret>,
    /// authors sorted by id bytes; rank = index + 1
    pub authors: Vec<Author>,
    /// an author secret that is *not* in the table (used to produce wrong signatures)
    pub stranger: Author,
    pub stranger_ns: NamespaceSecret,
    /// peers sorted by bytes; rank = index + 1
    pub peers: Vec<[u8; 32]>,
    /// hashes below EMPTY (ascending), ranks -n..-1
    pub h_below: Vec<Hash>,
    /// hashes above EMPTY (ascending), ranks 1..n
    pub h_above: Vec<Hash>,
}

impl World {
    pub fn new(seed: u64, n_auth: usize, n_peers: usize) -> Self {
        let mut rng = Rng::new(seed ^ 0x9e37_79b9_7f4a_7c15);
        let ns = NamespaceSecret::from_bytes(&rng.bytes32());
        let mut other_ns: Vec<_> = (0..3)
            .map(|_| NamespaceSecret::from_bytes(&rng.bytes32()))
            .collect();
        other_ns.sort_by_key(|n| n.id().to_bytes());
        let mut authors: Vec<Author> = (0..n_auth)
            .map(|_| Author::from_bytes(&rng.bytes32()))
            .collect();
        authors.sort_by_key(|a| a.id().to_bytes());
        let stranger = Author::from_bytes(&rng.bytes32());
        let stranger_ns = NamespaceSecret::from_bytes(&rng.bytes32());
        let mut peers: Vec<[u8; 32]> = (0..n_peers).map(|_| rng.bytes32()).collect();
        peers.sort();
        let mut below = vec![];
        let mut above = vec![];
        let mut i = 0u64;
        while below.len() < 3 || above.len() < 3 {
            let h = Hash::new(i.to_le_bytes());
            i += 1;
            if h.as_bytes() < Hash::EMPTY.as_bytes() {
                if below.len() < 3 {
                    below.push(h)
                }
            } else if h.as_bytes() > Hash::EMPTY.as_bytes() && above.len() < 3 {
                above.push(h)
            }
        }
        below.sort_by_key(|h| *h.as_bytes());
        above.sort_by_key(|h| *h.as_bytes());
        World {
            ns,
            other_ns,
            authors,
            stranger,
            stranger_ns,
            peers,
            h_below: below,
            h_above: above,
        }
    }

    pub fn nsid(&self) -> NamespaceId {
        self.ns.id()
    }

    pub fn author(&self, rank: i64) -> &Author {
        &self.authors[(rank - 1) as usize]
    }

    /// rank of an author id: 0 = all-zero id, n+1.. for unknown ids greater than all
    pub fn author_rank(&self, id: &[u8; 32]) -> i64 {
        if id == &[0u8; 32] {
            return 0;
        }
        for (i, a) in self.authors.iter().enumerate() {
            if &a.id().to_bytes() == id {
                return i as i64 + 1;
            }
        }
        if id == &self.stranger.id().to_bytes() {
            return 90;
        }
        if id == &[255u8; 32] {
            return 99;
        }
        // unknown id: encode its position relative to the table in half steps is not possible with
        // integers; the driver never generates such ids on purpose.
        98
    }

    pub fn peer_rank(&self, p: &[u8; 32]) -> i64 {
        self.peers
            .iter()
            .position(|q| q == p)
            .map(|i| i as i64 + 1)
            .unwrap_or(0)
    }

    pub fn hash(&self, rank: i64) -> Hash {
        if rank == 0 {
            Hash::EMPTY
        } else if rank < 0 {
            self.h_below[(self.h_below.len() as i64 + rank) as usize]
        } else {
            self.h_above[(rank - 1) as usize]
        }
    }

    pub fn hash_rank(&self, h: &Hash) -> i64 {
        if *h == Hash::EMPTY {
            return 0;
        }
        if let Some(i) = self.h_below.iter().position(|x| x == h) {
            return i as i64 - self.h_below.len() as i64;
        }
        if let Some(i) = self.h_above.iter().position(|x| x == h) {
            return i as i64 + 1;
        }
        77
    }

    /// -1 / 0 / +1: byte order of a namespace id relative to the run's main namespace
    pub fn ns_rel(&self, ns: &[u8; 32], main: &NamespaceId) -> i64 {
        match ns.cmp(main.as_bytes()) {
            std::cmp::Ordering::Less => -1,
            std::cmp::Ordering::Equal => 0,
            std::cmp::Ordering::Greater => 1,
        }
    }

    // ---------- projection ----------

    pub fn proj_entry(&self, e: &SignedEntry) -> Value {
        json!({
            "a": self.author_rank(&e.author().to_bytes()),
            "k": key_json(e.key()),
            "ts": e.timestamp(),
            "h": self.hash_rank(&e.content_hash()),
            "len": e.content_len(),
        })
    }

    pub fn proj_id(&self, id: &RecordIdentifier, main: &NamespaceId) -> Value {
        let (ns, a, k) = id.as_byte_tuple();
        json!([self.ns_rel(ns, main), self.author_rank(a), key_json(k)])
    }

    /// Full contents of a document in table order, deletion markers included.
    pub fn contents(&self, store: &mut Store, ns: NamespaceId) -> Value {
        match store.get_many(ns, Query::all().include_empty()) {
            Err(_) => json!("ERR"),
            Ok(it) => {
                let v: Vec<Value> = it
                    .map(|e| match e {
                        Ok(e) => self.proj_entry(&e),
                        Err(_) => json!("ERR"),
                    })
                    .collect();
                Value::Array(v)
            }
        }
    }

    /// Same as `contents`, but also reports whether each stored entry's signatures verify
    /// (checked with the public `SignedEntry::verify`, for the C03 "stored => authentic" invariant).
    pub fn contents_verified(&self, store: &mut Store, ns: NamespaceId) -> (Value, Value) {
        match store.get_many(ns, Query::all().include_empty()) {
            Err(_) => (json!("ERR"), json!([])),
            Ok(it) => {
                let mut v = vec![];
                let mut ok = vec![];
                for e in it {
                    match e {
                        Ok(e) => {
                            v.push(self.proj_entry(&e));
                            ok.push(json!(e.verify(&()).is_ok() && e.namespace() == ns));
                        }
                        Err(_) => v.push(json!("ERR")),
                    }
                }
                (Value::Array(v), Value::Array(ok))
            }
        }
    }

    pub fn heads(&self, store: &mut Store, ns: NamespaceId) -> Value {
        match store.get_latest_for_each_author(ns) {
            Err(_) => json!("ERR"),
            Ok(it) => {
                let v: Vec<Value> = it
                    .map(|e| match e {
                        Ok((a, ts, k)) => {
                            json!({"a": self.author_rank(&a.to_bytes()), "ts": ts, "k": key_json(&k)})
                        }
                        Err(_) => json!("ERR"),
                    })
                    .collect();
                Value::Array(v)
            }
        }
    }

    // ---------- forging ----------

    /// A record built through serde so that malformed emptiness combinations are possible
    /// (`Record::new` debug-asserts).
    pub fn record(&self, h: i64, len: u64, ts: u64) -> Record {
        let proto = Record::new(self.hash(1), 1, 1);
        let mut v = serde_json::to_value(&proto).unwrap();
        let hv = serde_json::to_value(self.hash(h)).unwrap();
        v["hash"] = hv;
        v["len"] = json!(len);
        v["timestamp"] = json!(ts);
        serde_json::from_value(v).expect("record from value")
    }

    /// A validly signed entry for the given namespace.
    pub fn signed_in(
        &self,
        ns: &NamespaceSecret,
        a: i64,
        k: &[u8],
        ts: u64,
        h: i64,
        len: u64,
    ) -> SignedEntry {
        let author = self.author(a);
        let id = RecordIdentifier::new(ns.id(), author.id(), k);
        Entry::new(id, self.record(h, len, ts)).sign(ns, author)
    }

    pub fn signed(&self, a: i64, k: &[u8], ts: u64, h: i64, len: u64) -> SignedEntry {
        self.signed_in(&self.ns, a, k, ts, h, len)
    }
}

pub fn key_json(k: &[u8]) -> Value {
    Value::Array(k.iter().map(|b| json!(*b)).collect())
}

pub fn cs_num(cs: ContentStatus) -> i64 {
    match cs {
        ContentStatus::Complete => 0,
        ContentStatus::Incomplete => 1,
        ContentStatus::Missing => 2,
    }
}
pub fn cs_of(n: i64) -> ContentStatus {
    match n {
        0 => ContentStatus::Complete,
        1 => ContentStatus::Incomplete,
        _ => ContentStatus::Missing,
    }
}

pub fn insert_error_class(e: &InsertError) -> &'static str {
    match e {
        InsertError::Store(_) => "Store",
        InsertError::Validation(v) => match v {
            ValidationFailure::InvalidNamespace => "InvalidNamespace",
            ValidationFailure::BadSignature => "BadSignature",
            ValidationFailure::TooFarInTheFuture => "TooFarInTheFuture",
            ValidationFailure::InvalidEmptyEntry => "InvalidEmptyEntry",
        },
        InsertError::NewerEntryExists => "NewerEntryExists",
        InsertError::EntryIsEmpty => "EntryIsEmpty",
        InsertError::ReadOnly => "ReadOnly",
        InsertError::Closed => "Closed",
    }
}

/// Class of an `anyhow::Error` coming back from the actor / replica: the typed cause where there is one
/// (`InsertError`, `ValidationFailure`, `ReadOnly`), otherwise just "err".  Error *texts* are never looked at:
/// no property speaks about wording, and a reworded message must not change a trace.
pub fn anyhow_class(e: &anyhow::Error) -> String {
    for cause in e.chain() {
        if let Some(ie) = cause.downcast_ref::<InsertError>() {
            return insert_error_class(ie).to_string();
        }
        if let Some(v) = cause.downcast_ref::<ValidationFailure>() {
            return match v {
                ValidationFailure::InvalidNamespace => "InvalidNamespace",
                ValidationFailure::BadSignature => "BadSignature",
                ValidationFailure::TooFarInTheFuture => "TooFarInTheFuture",
                ValidationFailure::InvalidEmptyEntry => "InvalidEmptyEntry",
            }
            .to_string();
        }
        if cause.downcast_ref::<iroh_docs::sync::ReadOnly>().is_some() {
            return "ReadOnly".into();
        }
    }
    "err".into()
}

/// ndjson trace writer
pub struct Trace {
    out: std::io::BufWriter<std::fs::File>,
    pub lines: u64,
}
impl Trace {
    pub fn create(path: &Path) -> Self {
        if let Some(p) = path.parent() {
            std::fs::create_dir_all(p).ok();
        }
        Trace {
            out: std::io::BufWriter::new(std::fs::File::create(path).expect("create trace")),
            lines: 0,
        }
    }
    pub fn emit(&mut self, v: Value) {
        serde_json::to_writer(&mut self.out, &v).unwrap();
        self.out.write_all(b"\n").unwrap();
        self.lines += 1;
    }
    pub fn finish(mut self) -> u64 {
        self.out.flush().unwrap();
        self.lines
    }
}

/// Store backends
pub enum Backend {
    Mem,
    File(PathBuf),
}
impl Backend {
    pub fn open(&self) -> Store {
        match self {
            Backend::Mem => Store::memory(),
            Backend::File(p) => Store::persistent(p).expect("open persistent store"),
        }
    }
    pub fn name(&self) -> &'static str {
        match self {
            Backend::Mem => "mem",
            Backend::File(_) => "file",
        }
    }
}

/// Simple summary counters written next to the trace (read by bin/check for evidence)
#[derive(Default)]
pub struct Summary(pub BTreeMap<String, u64>);
impl Summary {
    pub fn add(&mut self, k: &str, n: u64) {
        *self.0.entry(k.to_string()).or_default() += n;
    }
    pub fn write(&self, path: &Path) {
        std::fs::write(path, serde_json::to_vec_pretty(&self.0).unwrap()).unwrap();
    }
}
