------------------------------- MODULE Heads -------------------------------
(* Author heads (src/heads.rs): news detection and size-limited encoding (C13).
   A head set is a function author -> timestamp.                              *)
EXTENDS Naturals, Integers, FiniteSets, Sequences, FiniteSetsExt, Functions, TLC

CONSTANT EncodeKeyedByAuthor   \* encode() orders by (timestamp, author); FALSE models D6 (keyed by timestamp only)

\* postcard varint length of a u64 (values in traces/models stay below 2^31)
Varint(n) == IF n < 128 THEN 1 ELSE IF n < 16384 THEN 2 ELSE IF n < 2097152 THEN 3
             ELSE IF n < 268435456 THEN 4 ELSE 5

\* size of the postcard encoding of Vec<(u64, [u8;32])> holding the heads of K
SumPairs(S) == FoldSet(LAMBDA p, acc : acc + p[2], 0, S)
Size(H, K) == Varint(Cardinality(K)) + SumPairs({<<a, Varint(H[a]) + 32>> : a \in K})

NoLimit == -1

\* what the property demands of encode(H, limit) = K (the authors kept)
EncodeOk(H, limit, K) ==
  /\ K \subseteq DOMAIN H
  /\ limit = NoLimit => K = DOMAIN H
  /\ limit # NoLimit =>
       /\ Size(H, K) <= limit
       /\ \A a \in K, b \in (DOMAIN H) \ K : H[a] >= H[b]          \* the newest ones
       /\ LET rest == (DOMAIN H) \ K IN                            \* as many as fit
          rest = {} \/ \E b \in rest : (\A c \in rest : H[b] >= H[c]) /\ Size(H, K \cup {b}) > limit

\* the mechanism of heads.rs: walk heads from newest to oldest, stop at the first that does not fit
RECURSIVE Greedy(_, _, _, _)
Greedy(H, limit, K, rest) ==
  IF rest = {} THEN K
  ELSE LET b == CHOOSE x \in rest : \A c \in rest : H[x] >= H[c] IN
       IF limit # NoLimit /\ Size(H, K \cup {b}) > limit THEN K
       ELSE Greedy(H, limit, K \cup {b}, rest \ {b})
\* D6: a map keyed by timestamp keeps one author per timestamp
OnePerTs(H) == {a \in DOMAIN H : \A b \in DOMAIN H : H[b] = H[a] => a >= b}
EncodeMech(H, limit) ==
  Greedy(H, limit, {}, IF EncodeKeyedByAuthor THEN DOMAIN H ELSE OnePerTs(H))

NewsCount(theirs, ours) ==
  Cardinality({a \in DOMAIN theirs : a \notin DOMAIN ours \/ theirs[a] > ours[a]})
=============================================================================
