--------------------------- MODULE SyncSessionCore ---------------------------
(* Control flow of one sync session as implemented in src/net/codec.rs:
   the initiator loop run_alice and the acceptor state machine BobState::run
   followed by into_outcome (C10).  The store is abstracted: processing a
   well-formed message either yields a reply ("reply") or ends the session
   ("ok"); it fails exactly when the local replica is not usable (closed, sync
   disabled, actor shut down) or the namespace is unknown.

   Frames seen by a side: "InitOk" | "InitUnknown" | "SyncValid" | "SyncArb" |
   "Abort" | "Garbage" | "Oversize" | "Partial" | "Eof".
   cond: "ok" | "closed" | "syncoff" | "down".                                 *)
EXTENDS Naturals, Sequences, FiniteSets, TLC

CONSTANT ProgressRestored   \* into_outcome is total even when a step failed after taking the progress (D8 when FALSE)

\* "Partial": the stream ends inside a frame body; "PartialPrefix": inside a length prefix
Undecodable == {"Garbage", "Oversize", "Partial", "PartialPrefix"}
\* "...BadId": a decodable message whose record identifiers are shorter than namespace + author
\* "InitItems": an opening message that already carries entries (a decline must still leave the store alone)
Inits == {"InitOk", "InitItems", "InitUnknown", "InitBadId"}
Syncs == {"SyncValid", "SyncArb", "SyncBadId"}
Malformed == {"InitBadId", "SyncBadId"}
Terminal == {"ok", "err", "abort"}

\* acceptor: state [ns: namespace set, prog: "some" | "none"]; returns the set of allowed <<reaction, state'>>
BobReact(st, frame, cond, accept) ==
  LET fail == <<"err", [st EXCEPT !.prog = IF ProgressRestored THEN "some" ELSE "none"]>>
      failNs == <<fail[1], [fail[2] EXCEPT !.ns = TRUE]>>
      \* a frame with malformed identifiers may also be refused by the decoder (like garbage) or fail in processing
      extraInit == IF frame \in Malformed THEN {<<"err", st>>, failNs} ELSE {}
      extraSync == IF frame \in Malformed THEN {<<"err", st>>, fail} ELSE {}
  IN
  IF frame \in Undecodable THEN {<<"err", st>>}
  ELSE IF frame = "Eof" THEN {<<IF st.ns THEN "ok" ELSE "err", st>>}
  ELSE IF frame = "Abort" THEN {<<"err", st>>}
  ELSE IF frame \in Inits THEN
       IF st.ns THEN {<<"err", st>>}
       ELSE IF accept # "Allow" THEN {<<"abort", st>>} \cup (IF frame \in Malformed THEN {<<"err", st>>} ELSE {})
       ELSE IF cond # "ok" \/ frame = "InitUnknown" THEN {failNs} \cup extraInit
       ELSE {<<"reply", [st EXCEPT !.ns = TRUE]>>, <<"ok", [st EXCEPT !.ns = TRUE]>>} \cup extraInit
  ELSE \* Sync
       IF ~st.ns THEN {<<"err", st>>}
       ELSE IF cond # "ok" THEN {fail} \cup extraSync
       ELSE {<<"reply", st>>, <<"ok", st>>} \cup extraSync

\* initiator: reactions to a frame once the Init was sent
AliceReact(frame, cond) ==
  IF frame \in Undecodable \/ frame \in Inits THEN {"err"}
  ELSE IF frame = "Eof" THEN {"ok"}
  ELSE IF frame = "Abort" THEN {"abort", "err"}     \* a reported error either way (which variant: not C10's business)
  ELSE IF cond # "ok" THEN {"err"}
  ELSE IF frame \in Malformed THEN {"err", "reply", "ok"} ELSE {"reply", "ok"}
AliceStart(cond) == IF cond = "ok" THEN {"init"} ELSE {"err"}

BobInit == [ns |-> FALSE, prog |-> "some"]
=============================================================================
