----------------------------- MODULE DocsTrace -----------------------------
(* Trace validation of multi-document histories on the real store (harness
   `vdrive docs`).  Every line carries all observers of all documents after the
   step: capability kind, contents, heads, key-ordered query, useful peers,
   download policy, and the store-wide content-hash list.  Prop selects which
   obligations are enforced (C07 C15 C16 C17 C18); the observers a property does
   not talk about are taken from the log.                                      *)
EXTENDS Query, Policy, Json, IOUtils

CONSTANTS Prop, PeerCap

Rec == ndJsonDeserialize(IOEnv.TRACE)
VARIABLES l, docs, open
vars == <<l, docs, open>>

N == Len(docs)
St(dd) == ToSet(dd.st)
\* `news`: what has_news_for_us answers to a fixed report naming authors 1 and 2 at timestamp 1 = the number of those
\* two authors nothing is held of (news detection reads the heads - possibly through a cache of its own)
NewsOk(dd) == dd.news = Cardinality({a \in {1, 2} : ~\E e \in ToSet(dd.st) : e.a = a})
Gone(dd) == dd.cap = "none" /\ dd.st = <<>> /\ dd.heads = <<>> /\ dd.bykey = <<>> /\ dd.peers = <<>>
            /\ dd.pol = DefaultPolicy /\ dd.news = 2
HeadsFn(hs) == [a \in {hs[i].a : i \in 1..Len(hs)} |-> hs[CHOOSE i \in 1..Len(hs) : hs[i].a = a].ts]
HeadsOk(dd) ==   \* one head per author, the greatest timestamp among the author's records held (C13)
  /\ \A i, j \in 1..Len(dd.heads) : dd.heads[i].a = dd.heads[j].a => i = j
  /\ HeadsFn(dd.heads) = HeadsOf(St(dd))
Derived(dd) ==   \* derived tables agree with the records (C18 / C13)
  /\ \A i, j \in 1..Len(dd.heads) : dd.heads[i].a = dd.heads[j].a => i = j
  /\ HeadsFn(dd.heads) = HeadsOf(St(dd))
  /\ dd.bykey = SetToSortSeq(St(dd), KALess)
  /\ dd.st = SetToSortSeq(St(dd), AKLess)

\* most-recently-used update of the peer list as observed (newest first)
MRU(ps, p) == LET rest == SelectSeq(ps, LAMBDA x : x # p)
                  all == <<p>> \o rest
              IN IF Len(all) > PeerCap THEN SubSeq(all, 1, PeerCap) ELSE all

\* "st" = the records; "derived" = what the heads table and the by-key index answer (C13 / C18 / C05 speak about those)
Same(pre, post, fields) ==
  /\ ("cap" \in fields => post.cap = pre.cap)
  /\ ("st" \in fields => post.st = pre.st)
  /\ ("derived" \in fields => post.heads = pre.heads /\ post.bykey = pre.bykey)
  /\ ("peers" \in fields => post.peers = pre.peers)
  /\ ("pol" \in fields => post.pol = pre.pol)
All == {"cap", "st", "derived", "peers", "pol"}

\* what each property looks at (every check is modular: how an operation treats the field that is another property's
\* subject is taken from the log)
Sees(f) == CASE Prop = "C07" -> f \in {"cap", "st"}
             [] Prop = "C15" -> f \in {"pol"}
             [] Prop = "C16" -> f \in {"cap", "st", "peers", "pol"}    \* plus the derived answers when a document is removed
             [] Prop = "C17" -> f \in {"peers"}
             [] Prop = "C18" -> f \in {"st", "derived"}
             [] Prop = "C13" -> FALSE          \* only the author heads against the records, after every call
Fields == {f \in All : Sees(f)}

Frame(r, d) == \A o \in 1..N : o # d => Same(docs[o], r.docs[o], IF Prop = "C16" /\ r.ev = "Remove" THEN All ELSE Fields)

Target(r) ==
  LET d == r.d  pre == docs[d]  post == r.docs[d] IN
  CASE r.ev = "Import" ->
         /\ r.res = "ok"
         /\ Same(pre, post, Fields \ {"cap"})
         /\ post.cap # "none"
         /\ Prop = "C07" =>
              post.cap = (IF pre.cap = "none" THEN r.kind ELSE IF r.kind = "write" THEN "write" ELSE pre.cap)
    [] r.ev = "Open" ->
         /\ Same(pre, post, Fields)
         /\ Prop = "C07" => (r.res = "ok") = (pre.cap # "none")
    [] r.ev = "Close" -> Same(pre, post, Fields)
    [] r.ev = "Put" ->
         /\ Same(pre, post, Fields \ {"st", "derived"})
         \* (a handle on a document that no longer exists can only arise from a wrongful removal: C16's to report)
         /\ (Prop = "C07" /\ pre.cap # "none") =>
              IF r.path \in {"local", "delete"} /\ pre.cap # "write"
              THEN r.res = "ReadOnly" /\ Same(pre, post, {"st"})
              ELSE /\ r.res \in {"ok", "NewerEntryExists"}        \* write attempts are never refused for capability
                   \* (which of the two is the admission rule's business, C02; here: an accepted entry is held,
                   \*  a refused one changes nothing)
                   /\ r.res = "ok" => r.e \in St(post)
                   /\ r.res # "ok" => Same(pre, post, {"st"})
         /\ Prop \in {"C16", "C18"} => (r.res # "ok" => Same(pre, post, {"st"}))
    [] r.ev = "Peer" ->
         /\ Same(pre, post, Fields \ {"peers"})
         /\ Prop = "C17" =>
              IF pre.cap = "none" THEN r.res # "ok" /\ post.peers = pre.peers
              ELSE r.res = "ok" /\ post.peers = MRU(pre.peers, r.p)
    [] r.ev = "Policy" ->
         /\ Same(pre, post, Fields \ {"pol"})
         /\ Prop = "C15" =>
              IF pre.cap = "none" THEN r.res # "ok" /\ post.pol = pre.pol
              ELSE r.res = "ok" /\ post.pol = [kind |-> r.kind, filters |-> r.filters]
    [] r.ev = "Remove" ->
         IF Prop = "C16"
         THEN IF d \in open THEN r.res # "ok" /\ Same(pre, post, All)
              \* removing a document the store has no capability for (never imported / already removed): either it is
              \* refused and nothing changes, or it succeeds and nothing of it is left
              ELSE IF pre.cap = "none" THEN (r.res = "ok" /\ Gone(post)) \/ (r.res # "ok" /\ Same(pre, post, All))
              ELSE r.res = "ok" /\ Gone(post)
         ELSE \* whether the removal had to be refused is C16's question; the other properties follow the logged outcome
              IF r.res = "ok"
              THEN /\ Prop = "C07" => post.cap = "none"
                   /\ Prop = "C15" => post.pol = DefaultPolicy
                   /\ Prop = "C17" => post.peers = <<>>
                   /\ Prop = "C18" => post.st = <<>>
              ELSE Same(pre, post, Fields)

Global(r) ==
  /\ Prop \in {"C16"} => ToSet(r.hashes) = UNION {{e.h : e \in St(r.docs[o])} : o \in 1..N}
  /\ (Prop = "C18" /\ r.ev = "DropDerived") => \A o \in 1..N : Derived(r.docs[o])
  /\ Prop = "C17" => \A o \in 1..N : Len(r.docs[o].peers) <= PeerCap
  /\ Prop = "C13" => \A o \in 1..N : HeadsOk(r.docs[o]) /\ NewsOk(r.docs[o])

Check(r) ==
  CASE r.ev \in {"Reopen", "DropDerived"} ->
         /\ r.res = "ok"
         \* reopening an up-to-date file changes nothing a property looks at; after dropping derived tables the rebuilt
         \* answers are judged by Derived (C18), not by equality with the old ones
         /\ \A o \in 1..N : Same(docs[o], r.docs[o], IF r.ev = "DropDerived" THEN Fields \ {"derived"} ELSE Fields)
         /\ (Prop = "C18" /\ r.ev = "DropDerived") =>
               \A o \in 1..N : docs[o].cap = r.docs[o].cap /\ docs[o].st = r.docs[o].st
                                /\ docs[o].peers = r.docs[o].peers /\ docs[o].pol = r.docs[o].pol
         /\ Global(r)
    [] r.ev = "Plant" ->
         \* environment: a record (with its index and head rows) written into the file of a closed store for a document id
         \* no secret exists for; the planted state is taken from the log, it must be the old one plus that entry,
         \* with consistent derived tables, and nothing else may differ
         LET d == r.d  pre == docs[d]  post == r.docs[d] IN
         /\ r.res = "ok"
         /\ St(post) = {f \in St(pre) : ~SameId(f, r.e)} \cup {r.e}
         /\ Derived(post)
         /\ Same(pre, post, All \ {"st", "derived"})
         /\ \A o \in 1..N : o # d => Same(docs[o], r.docs[o], All)
    [] r.ev \in {"Import", "Open", "Close", "Put", "Peer", "Policy", "Remove"} ->
         /\ Target(r) /\ Frame(r, r.d) /\ Global(r)
         \* a document that is not there (never created, or removed) stays unobservable whatever request names it, until it
         \* is created (again): C16's "once removed, nothing of it can be observed; re-creating it yields an empty document"
         /\ (Prop = "C16" /\ r.ev # "Import" /\ Gone(docs[r.d])) => Gone(r.docs[r.d])
    [] r.ev = "Match" -> Prop = "C15" => r.res = Matches(r.pol, r.key)
    [] r.ev = "Filter" -> Prop = "C15" => (r.res = "ok" /\ r.back_kind = r.kind /\ r.back_bytes = r.bytes)
    [] OTHER -> FALSE

Init == l = 1 /\ docs = <<>> /\ open = {}
Step ==
  /\ l <= Len(Rec)
  /\ LET r == Rec[l] IN
     IF r.ev = "Reset"
     THEN docs' = r.docs /\ open' = {} /\ \A o \in 1..Len(r.docs) : Gone(r.docs[o])
     ELSE IF r.ev \in {"Match", "Filter"} THEN Check(r) /\ UNCHANGED <<docs, open>>
     ELSE /\ Check(r) /\ docs' = r.docs /\ open' = ToSet(r.open)
  /\ l' = l + 1
Spec == Init /\ [][Step]_vars
Accepted ==
  IF TLCGet("stats").diameter - 1 = Len(Rec) THEN TRUE
  ELSE /\ PrintT(<<"REJECTED_AT", TLCGet("stats").diameter, "OF", Len(Rec)>>)
       /\ PrintT(<<"EVENT", ToJson(Rec[TLCGet("stats").diameter])>>)
       /\ FALSE
=============================================================================
