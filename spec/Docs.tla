-------------------------------- MODULE Docs --------------------------------
(* The multi-document store (src/store/fs.rs): capabilities, records, per-author
   heads, useful peers and download policies of several documents whose ids are
   byte neighbours, with open/close, removal, re-creation and store reopen.
   C07 (capabilities), C15 (policies), C16 (removal), C17 (peer list) and the
   table-level part of C13/C18 (heads rows).

   Document ids are short byte strings so that the range-bound mechanism of
   remove_replica (RecordsBounds::namespace: [ns, ns+1) with a fixed-width carry
   increment) is part of the model.                                           *)
EXTENDS Entries, Policy, SequencesExt, TLC

CONSTANTS DocIds,            \* ids (byte strings of equal length), e.g. <<1,255>>, <<2,0>>, <<255,255>>
          EntryU,            \* entries used for inserts
          PeerIds,
          Pols,              \* policies used
          MaxSteps,
          PeerCap,           \* PEERS_PER_DOC_CACHE_SIZE
          RemoveClearsHeads, RemoveClearsSettings, RemoveUpperBound,
          ImportNeverDowngrades, PeerRefreshMoves,
          RebuildTakesMax    \* migration 001 keeps the greatest timestamp per author (FALSE: the last row scanned wins)

VARIABLES caps, recs, latest, peers, pols, open, steps
vars == <<caps, recs, latest, peers, pols, open, steps>>

Exists(d) == d \in DOMAIN caps
DocRecs(d) == {r.e : r \in {x \in recs : x.ns = d}}
DocHeads(d) == {<<h.a, h.ts>> : h \in {x \in latest : x.ns = d}}
Step == steps < MaxSteps /\ steps' = steps + 1

Init == /\ caps = <<>> /\ recs = {} /\ latest = {} /\ peers = <<>> /\ pols = <<>>
        /\ open = {} /\ steps = 0

Import(d, kind) ==
  /\ Step
  /\ caps' = IF Exists(d)
             THEN IF kind = "write" \/ ~ImportNeverDowngrades THEN [caps EXCEPT ![d] = kind] ELSE caps
             ELSE [x \in (DOMAIN caps) \cup {d} |-> IF x = d THEN kind ELSE caps[x]]
  /\ UNCHANGED <<recs, latest, peers, pols, open>>

Open(d) == /\ Step /\ Exists(d) /\ open' = open \cup {d}
           /\ UNCHANGED <<caps, recs, latest, peers, pols>>
Close(d) == /\ Step /\ d \in open /\ open' = open \ {d}
            /\ UNCHANGED <<caps, recs, latest, peers, pols>>

\* entry_put + pruning on the rows of document d
Insert(d, e, local) ==
  /\ Step /\ d \in open
  /\ local => caps[d] = "write"
  /\ LET S == DocRecs(d) IN
     /\ PutOk(S, e)
     /\ recs' = {r \in recs : r.ns # d} \cup {[ns |-> d, e |-> x] : x \in PutStore(S, e)}
     /\ latest' = LET old == {h \in latest : h.ns = d /\ h.a = e.a}
                      cur == IF old = {} THEN 0 ELSE (CHOOSE h \in old : TRUE).ts
                  IN (latest \ old) \cup {[ns |-> d, a |-> e.a, ts |-> IF cur > e.ts THEN cur ELSE e.ts]}
  /\ UNCHANGED <<caps, peers, pols, open>>

\* remove_replica: refused while open; rows selected by the namespace range [d, d+1)
InNsRange(d, ns) ==
  LexLeq(d, ns) /\ (~RemoveUpperBound \/ IncByOne(d) = NoSucc \/ LexLess(ns, IncByOne(d)))
RemoveDoc(d) ==
  /\ Step /\ Exists(d) /\ d \notin open
  /\ recs' = {r \in recs : ~InNsRange(d, r.ns)}
  /\ latest' = IF RemoveClearsHeads THEN {h \in latest : h.ns # d} ELSE latest
  /\ caps' = [x \in (DOMAIN caps) \ {d} |-> caps[x]]
  /\ peers' = IF RemoveClearsSettings THEN [x \in (DOMAIN peers) \ {d} |-> peers[x]] ELSE peers
  /\ pols' = IF RemoveClearsSettings THEN [x \in (DOMAIN pols) \ {d} |-> pols[x]] ELSE pols
  /\ UNCHANGED open

\* register_useful_peer: the table is kept oldest-first; get_sync_peers reads it newest-first
RegisterPeer(d, p) ==
  /\ Step /\ Exists(d)
  /\ LET T == IF d \in DOMAIN peers THEN peers[d] ELSE <<>>
         T2 == IF T = <<>> THEN <<p>>
               ELSE IF T[1] = p THEN (IF PeerRefreshMoves THEN Tail(T) \o <<p>> ELSE T)
               ELSE IF \E i \in 2..Len(T) : T[i] = p
                    THEN (IF PeerRefreshMoves THEN SelectSeq(T, LAMBDA x : x # p) \o <<p>> ELSE T)
                    ELSE IF Len(T) + 1 > PeerCap THEN Tail(T) \o <<p>> ELSE T \o <<p>>
     IN peers' = [x \in (DOMAIN peers) \cup {d} |-> IF x = d THEN T2 ELSE peers[x]]
  /\ UNCHANGED <<caps, recs, latest, pols, open>>

SetPolicy(d, p) ==
  /\ Step /\ Exists(d)
  /\ pols' = [x \in (DOMAIN pols) \cup {d} |-> IF x = d THEN p ELSE pols[x]]
  /\ UNCHANGED <<caps, recs, latest, peers, open>>

Reopen == /\ Step /\ open' = {} /\ UNCHANGED <<caps, recs, latest, peers, pols>>

\* an older database without the heads table is opened: migration 001 scans records-1 in table order
\* (namespace, author, key) and rebuilds one row per (namespace, author)
RebuiltHead(d, a) ==
  LET rows == SetToSortSeq({e \in DocRecs(d) : e.a = a}, LAMBDA u, v : LexLess(u.k, v.k))
  IN IF RebuildTakesMax THEN MaxTs(DocRecs(d), a) ELSE rows[Len(rows)].ts
DropHeadsAndReopen ==
  /\ Step /\ open' = {}
  /\ latest' = IF recs = {} THEN {}
               ELSE {[ns |-> r.ns, a |-> r.e.a, ts |-> RebuiltHead(r.ns, r.e.a)] : r \in recs}
  /\ UNCHANGED <<caps, recs, peers, pols>>

Next ==
  \/ \E d \in DocIds :
       \/ \E k \in {"read", "write"} : Import(d, k)
       \/ Open(d) \/ Close(d) \/ RemoveDoc(d)
       \/ \E e \in EntryU, loc \in BOOLEAN : Insert(d, e, loc)
       \/ (\E p \in PeerIds : RegisterPeer(d, p))
       \/ (\E q \in Pols : SetPolicy(d, q))
  \/ Reopen \/ DropHeadsAndReopen
Spec == Init /\ [][Next]_vars

\* ---- properties ----
\* C07: a write capability is never lost except by removing the document
CapMonotone == [][\A d \in DocIds :
                    (Exists(d) /\ caps[d] = "write" /\ d \in DOMAIN caps') => caps'[d] = "write"]_vars
\* C16 / C07: an action on one document leaves every other document untouched
Obs(d) == <<IF Exists(d) THEN caps[d] ELSE "none", DocRecs(d), DocHeads(d),
            IF d \in DOMAIN peers THEN peers[d] ELSE <<>>, IF d \in DOMAIN pols THEN <<pols[d]>> ELSE <<>>>>
ObsP(d) == <<IF d \in DOMAIN caps' THEN caps'[d] ELSE "none", {r.e : r \in {x \in recs' : x.ns = d}},
             {<<h.a, h.ts>> : h \in {x \in latest' : x.ns = d}},
             IF d \in DOMAIN peers' THEN peers'[d] ELSE <<>>, IF d \in DOMAIN pols' THEN <<pols'[d]>> ELSE <<>>>>
Gone == <<"none", {}, {}, <<>>, <<>>>>
OthersUntouched == [][\A d \in DocIds :
   (\/ \E k \in {"read", "write"} : Import(d, k)
    \/ RemoveDoc(d) \/ \E e \in EntryU, loc \in BOOLEAN : Insert(d, e, loc)
    \/ (\E p \in PeerIds : RegisterPeer(d, p)) \/ (\E q \in Pols : SetPolicy(d, q)))
   => \A o \in DocIds \ {d} : ObsP(o) = Obs(o)]_vars
RemovedIsGone == [][\A d \in DocIds : RemoveDoc(d) => ObsP(d) = Gone]_vars
\* nothing of a document that does not exist is observable
NoOrphans == \A d \in DocIds : ~Exists(d) => Obs(d) = Gone
\* C13/C18 at table level
HeadsRowsExact == \A d \in DocIds : DocHeads(d) = {<<a, MaxTs(DocRecs(d), a)>> : a \in Authors(DocRecs(d))}
\* C17
PeerListOk == \A d \in DOMAIN peers : Len(peers[d]) <= PeerCap /\ IsInjective(peers[d])
\* C17: re-registration moves a peer to the most-recent position
PeerMRU == [][\A d \in DocIds, p \in PeerIds : RegisterPeer(d, p) => Last(peers'[d]) = p]_vars
=============================================================================
