----------------------------- MODULE QueryTrace -----------------------------
(* Trace validation of queries and point lookups on the real store (harness
   `vdrive query`): each event carries the contents snapshot and a batch of
   queries with their answers; every answer must satisfy Query!ResultOk.       *)
EXTENDS Query, Json, IOUtils

Rec == ndJsonDeserialize(IOEnv.TRACE)
VARIABLE l
vars == <<l>>

BadQ(r) == {i \in 1..Len(r.qs) : ~ResultOk(ToSet(r.st), r.qs[i], r.qs[i].res)}
BadX(r) == {i \in 1..Len(r.xs) : ~ExactOk(ToSet(r.st), r.xs[i].a, r.xs[i].k, r.xs[i].ie, r.xs[i].res)}

Check(r) ==
  CASE r.ev = "Reset" -> TRUE
    [] r.ev = "Q" -> IF BadQ(r) = {} THEN TRUE
                     ELSE PrintT(<<"BADQUERY", ToJson(r.qs[CHOOSE i \in BadQ(r) : TRUE])>>) /\ FALSE
    [] r.ev = "X" -> IF BadX(r) = {} THEN TRUE
                     ELSE PrintT(<<"BADLOOKUP", ToJson(r.xs[CHOOSE i \in BadX(r) : TRUE])>>) /\ FALSE
    \* a write after the first queries, then (possibly) a call that commits by another road than a query, then the
    \* contents as a query gives them: an acknowledged entry is there, and nothing is there that was not there before
    \* (which older entries it displaced is C02's subject; the point lookups of the next event must agree with st2)
    [] r.ev = "W" -> /\ (r.res = "ok" => r.e \in ToSet(r.st2))
                     /\ ToSet(r.st2) \subseteq ToSet(r.st) \cup {r.e}
    [] OTHER -> FALSE

Init == l = 1
Step == l <= Len(Rec) /\ Check(Rec[l]) /\ l' = l + 1
Spec == Init /\ [][Step]_vars
Accepted ==
  IF TLCGet("stats").diameter - 1 = Len(Rec) THEN TRUE
  ELSE /\ PrintT(<<"REJECTED_AT", TLCGet("stats").diameter, "OF", Len(Rec)>>)
       /\ PrintT(<<"EVENT", ToJson([ev |-> Rec[TLCGet("stats").diameter].ev, st |-> Rec[TLCGet("stats").diameter].st])>>)
       /\ FALSE
=============================================================================
