------------------------------- MODULE Policy -------------------------------
(* Download policies (src/store.rs DownloadPolicy / FilterKind).
   A policy is [kind |-> "only" | "except", filters |-> sequence of <<"prefix"|"exact", bytes>>]
   "only" = NothingExcept, "except" = EverythingExcept.                        *)
EXTENDS Bytes

FilterMatches(f, key) == IF f[1] = "prefix" THEN KeyPrefix(f[2], key) ELSE f[2] = key
AnyMatches(p, key) == \E i \in 1..Len(p.filters) : FilterMatches(p.filters[i], key)
Matches(p, key) == IF p.kind = "only" THEN AnyMatches(p, key) ELSE ~AnyMatches(p, key)
DefaultPolicy == [kind |-> "except", filters |-> <<>>]
=============================================================================
