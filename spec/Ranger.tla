------------------------------- MODULE Ranger -------------------------------
(* Range-based set reconciliation as implemented in src/ranger.rs
   (Store::process_message, Message::init) over the plain ordered-set semantics
   of a replica (Entries).  This module is the "reference ordered map" of C08:
   range scans in the three orderings of (x,y), first key, fingerprints, pivot
   selection and the split, the item/diff phase and the recursion anchor.

   Ids are triples <<nsrel, a, k>>: nsrel in {-1,0,1} is the byte order of the
   id's namespace relative to the document (0 = the document itself; -1 occurs
   in RecordIdentifier::default(), the all-zero id used for an empty store).

   A message is a sequence of parts [t, x, y, fp, vals, hl]:
     t = "fp":   fingerprint of range (x,y); `fp` is an abstract fingerprint
     t = "item": entries of range (x,y) in `vals`, each [e, cs, nsok, sigok];
                 hl = have_local
   Fingerprints are abstract: the operator parameters FpEq / FpEmpty decide
   equality with the local range set and emptiness, so that the same text serves
   the model (fingerprint = the set itself) and trace validation (fingerprint =
   observed 32-byte value, resolved through an injectivity map).              *)
EXTENDS Entries, SequencesExt, Functions, TLC

CONSTANTS ValidateEmptyInSync,   \* reconciliation path rejects malformed deletion markers (D7 when FALSE)
          MaxShift               \* MAX_TIMESTAMP_FUTURE_SHIFT in micros

Id(e) == <<0, e.a, e.k>>
DefaultId == <<-1, 0, <<>>>>
IdLess(i, j) ==
  \/ i[1] < j[1]
  \/ i[1] = j[1] /\ i[2] < j[2]
  \/ i[1] = j[1] /\ i[2] = j[2] /\ LexLess(i[3], j[3])
IdLeq(i, j) == i = j \/ IdLess(i, j)

Sorted(S) == SetToSortSeq(S, LAMBDA u, v : IdLess(Id(u), Id(v)))

\* get_range, in the iteration order of the redb implementation:
\*   x = y : everything;  x < y : [x, y);  x > y : [start, y) followed by [x, end]
RangeSeq(S, x, y) ==
  IF x = y THEN Sorted(S)
  ELSE IF IdLess(x, y) THEN Sorted({e \in S : IdLeq(x, Id(e)) /\ IdLess(Id(e), y)})
  ELSE Sorted({e \in S : IdLess(Id(e), y)}) \o Sorted({e \in S : IdLeq(x, Id(e))})
InRange(i, x, y) ==
  IF x = y THEN TRUE
  ELSE IF IdLess(x, y) THEN IdLeq(x, i) /\ IdLess(i, y)
  ELSE IdLess(i, y) \/ IdLeq(x, i)
RangeSet(S, x, y) == {e \in S : InRange(Id(e), x, y)}

First(S) == IF S = {} THEN DefaultId ELSE Id(Sorted(S)[1])

\* acceptance of an incoming value (validate_entry on the reconciliation path)
Acceptable(v, now, strictEmpty) ==
  /\ v.nsok /\ v.sigok
  /\ v.e.ts <= now + MaxShift
  /\ (strictEmpty => WellFormed(v.e))

MkVal(e) == [e |-> e, cs |-> 2, nsok |-> TRUE, sigok |-> TRUE]
MkVals(seq) == [i \in 1..Len(seq) |-> MkVal(seq[i])]
ItemPart(x, y, seq, hl) == [t |-> "item", x |-> x, y |-> y, fp |-> {}, vals |-> MkVals(seq), hl |-> hl]
FpPart(x, y, set) == [t |-> "fp", x |-> x, y |-> y, fp |-> set, vals |-> <<>>, hl |-> FALSE]

InitMsg(S) == LET x == First(S) IN << FpPart(x, x, S) >>

Items(msg) == SelectSeq(msg, LAMBDA p : p.t = "item")
Fps(msg)   == SelectSeq(msg, LAMBDA p : p.t = "fp")

\* Store incoming values one by one: returns [S, ins] where ins is the sequence of
\* values for which on_insert_cb fires
RECURSIVE StoreVals(_, _, _, _)
StoreVals(acc, vals, i, now) ==
  IF i > Len(vals) THEN acc
  ELSE LET v == vals[i]
           ok == Acceptable(v, now, ValidateEmptyInSync) /\ PutOk(acc.S, v.e)
       IN StoreVals([S |-> IF ok THEN PutStore(acc.S, v.e) ELSE acc.S,
                     ins |-> IF ok THEN Append(acc.ins, v) ELSE acc.ins], vals, i + 1, now)

\* one item part
DoItem(acc, p, now) ==
  LET ours == RangeSeq(acc.S, p.x, p.y)
      diff == SelectSeq(ours, LAMBDA o :
                 ~\E i \in 1..Len(p.vals) : Id(p.vals[i].e) = Id(o) /\ ValLeq(o, p.vals[i].e))
      st   == StoreVals([S |-> acc.S, ins |-> acc.ins], p.vals, 1, now)
  IN [S |-> st.S, ins |-> st.ins,
      out |-> IF ~p.hl /\ diff # <<>> THEN Append(acc.out, ItemPart(p.x, p.y, diff, TRUE)) ELSE acc.out,
      bad |-> acc.bad]

\* the split of Case 3
SplitRanges(S, x, y, k) ==
  LET seq  == RangeSeq(S, x, y)
      n    == Len(seq)
      si   == Cardinality({i \in 1..n : \A j \in 1..i : IdLess(Id(seq[j]), x)})    \* start_index
      Piv(i) == LET off == (n * ((i % k) + 1)) \div k
                IN Id(seq[((si + off) % n) + 1])
  IN IF x = y
     THEN SelectSeq([i \in 1..k |-> <<Piv(i - 1), Piv(i)>>], LAMBDA r : r[1] # r[2])
     ELSE << <<x, Piv(0)>> >>
          \o SelectSeq([i \in 1..(k - 2) |-> <<Piv(i - 1), Piv(i)>>], LAMBDA r : r[1] # r[2])
          \o << <<Piv(k - 2), y>> >>

DoFp(acc, p, cfg, FpEq(_, _), FpEmpty(_)) ==
  LET S   == acc.S
      seq == RangeSeq(S, p.x, p.y)
      n   == Len(seq)
  IN IF FpEq(RangeSet(S, p.x, p.y), p.fp) THEN acc
     ELSE IF n <= 1 \/ FpEmpty(p.fp)
     THEN [acc EXCEPT !.out = Append(@, ItemPart(p.x, p.y, seq, FALSE))]
     ELSE LET rs == SplitRanges(S, p.x, p.y, cfg[1])
              parts == [i \in 1..Len(rs) |->
                          LET c == RangeSeq(S, rs[i][1], rs[i][2]) IN
                          IF Len(c) > cfg[2]
                          THEN FpPart(rs[i][1], rs[i][2], RangeSet(S, rs[i][1], rs[i][2]))
                          ELSE ItemPart(rs[i][1], rs[i][2], c, FALSE)]
              nonEmpty == Cardinality({i \in 1..Len(rs) : RangeSet(S, rs[i][1], rs[i][2]) # {}})
          IN [acc EXCEPT !.out = @ \o parts, !.bad = @ \/ nonEmpty <= 1]

\* process_message: [S: store after, out: reply parts (<<>> = None), ins: inserted values in
\* order, bad: debug_assert!(non_empty > 1) would fire]
Process(S, msg, cfg, now, FpEq(_, _), FpEmpty(_)) ==
  LET a1 == FoldLeft(LAMBDA acc, p : DoItem(acc, p, now),
                     [S |-> S, out |-> <<>>, ins |-> <<>>, bad |-> FALSE], Items(msg))
  IN FoldLeft(LAMBDA acc, p : DoFp(acc, p, cfg, FpEq, FpEmpty), a1, Fps(msg))

ValueCount(msg) == FoldLeft(LAMBDA s, p : s + Len(p.vals), 0, msg)
MsgEntries(msg) == UNION {{p.vals[i].e : i \in 1..Len(p.vals)} : p \in Range(msg)}

\* model instantiation of the abstract fingerprint: the set itself
SetFpEq(set, fp) == set = fp
SetFpEmpty(fp) == fp = {}
=============================================================================
