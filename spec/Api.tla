--------------------------------- MODULE Api ---------------------------------
(* Model of a node driven through the client API: all histories of API calls by a
   well-behaved client (closes only handles it obtained), graceful restarts and
   crashes.  Checked: the default author always exists, the live actor's handle on
   every syncing document is never lost, a document is listed exactly while it has
   a capability, and (design: SetDefaultFlushes) a crash image can always start.  *)
EXTENDS ApiCore

CONSTANTS Docs, AuthorIds, EntryU, MaxCalls,
          BalancedCloses   \* the client closes only handles it holds (FALSE: Doc::close may be repeated)

VARIABLES S, mine, ncalls   \* mine[d]: handles the client obtained and has not closed
vars == <<S, mine, ncalls>>

Init ==
  /\ S = [st |-> [docs |-> [d \in Docs |-> NoDoc], open |-> <<>>, authors |-> {1}],
          live |-> {}, def |-> 1, dur |-> {1}, nextsid |-> 1]
  /\ mine = [d \in Docs |-> 0]
  /\ ncalls = 0

Calls ==
  [op : {"AuthorCreate"}, a : AuthorIds] \cup [op : {"AuthorDelete"}, a : AuthorIds]
  \cup [op : {"AuthorSetDefault"}, a : AuthorIds] \cup [op : {"AuthorList"}]
  \cup [op : {"Create", "Open", "Close", "StartSync", "Leave", "DropDoc", "Subscribe", "List"}, d : Docs]
  \cup [op : {"ImportNs"}, d : Docs, kind : {"read", "write"}]
  \cup [op : {"Share"}, d : Docs, mode : {"read", "write"}]
  \cup [op : {"SetHash"}, d : Docs, e : EntryU]

Call(c) ==
  /\ ncalls < MaxCalls
  /\ c.op = "Create" => S.st.docs[c.d].cap = "none"          \* a created document is always a fresh one
  /\ (c.op = "Close" /\ BalancedCloses) => mine[c.d] > 0
  /\ LET R == ApiStep(S, c) IN
       /\ S' = R.S
       /\ mine' = IF R.res = "ok" /\ c.op \in {"Create", "Open", "ImportNs"} THEN [mine EXCEPT ![c.d] = @ + 1]
                  ELSE IF c.op = "Close" /\ mine[c.d] > 0 THEN [mine EXCEPT ![c.d] = @ - 1]
                  ELSE IF c.op = "DropDoc" /\ mine[c.d] > 0 THEN [mine EXCEPT ![c.d] = @ - 1]   \* drop consumes one handle
                  ELSE mine
  /\ ncalls' = ncalls + 1

Restart == /\ ncalls < MaxCalls /\ S' = Restarted(S) /\ mine' = [d \in Docs |-> 0] /\ ncalls' = ncalls + 1
\* the store commits on its own (age of the transaction, idle timer of the actor)
Tick == /\ S.dur # S.st.authors /\ S' = Commit(S) /\ UNCHANGED <<mine, ncalls>>

Next == (\E c \in Calls : Call(c)) \/ Restart \/ Tick
Spec == Init /\ [][Next]_vars

InvDefaultExists == DefaultExists(S)
InvLiveHoldsHandle == LiveHoldsHandle(S)
InvNoDanglingDefault == NoDanglingDefault(S)
\* the client's handles are usable: a document it holds a handle on is open
InvMineUsable == \A d \in Docs : mine[d] > 0 => IsOpen(S.st, d)
\* open documents exist
InvOpenExists == \A d \in DOMAIN S.st.open : S.st.docs[d].cap # "none"
=============================================================================
