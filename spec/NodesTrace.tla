------------------------------ MODULE NodesTrace ------------------------------
(* System-level trace validation (extension X03; harness `vdrive nodes`): two or three
   complete nodes (endpoint, gossip, blobs, engine, live actor, store actor, client
   API) share one document through a ticket and write to it concurrently; the
   network is the real local one.  Nothing below the API is hooked or observed.

   What the whole system owes its users is the composition of C02 (the replica is
   the join of what it was offered) and C04 (replicas converge): once the nodes
   have gone quiet, every node holds exactly Kept(all acknowledged writes), and no
   node ever shows an entry nobody wrote.  Each event carries the contents of every
   node as read through the API at that moment.                                  *)
EXTENDS Entries, SequencesExt, Json, IOUtils

\* extension X06 (Gossip.tla): a member of the document's gossip topic broadcast bytes that are no Op.  With
\* GarbageTolerated the nodes must still converge; without it (what receive_loop does: the error ends the loop and the
\* topic is forgotten) a history with such a message may stay diverged - and only such a history
CONSTANT GarbageTolerated

Rec == ndJsonDeserialize(IOEnv.TRACE)
VARIABLES l, written,    \* written: entries whose write was acknowledged by some node
          garbage       \* an undecodable gossip message was broadcast in this history
vars == <<l, written, garbage>>

Sets(r) == [n \in 1..Len(r.sts) |-> ToSet(r.sts[n])]
\* nobody shows an entry that was not written
OnlyWritten(r, w) == \A n \in 1..Len(r.sts) : ToSet(r.sts[n]) \subseteq w
\* every node's contents are free of superseded entries
Normal(r) == \A n \in 1..Len(r.sts) : ToSet(r.sts[n]) = Kept(ToSet(r.sts[n]))

Init == l = 1 /\ written = {} /\ garbage = FALSE
Step ==
  /\ l <= Len(Rec)
  /\ LET r == Rec[l] IN
       CASE r.ev = "Reset" -> written' = {} /\ garbage' = FALSE
         [] r.ev = "Joined" -> r.res = "ok" /\ UNCHANGED <<written, garbage>>          \* ticket imported, sync started
         [] r.ev = "Garbage" -> garbage' = r.sent /\ UNCHANGED written
         [] r.ev = "ExtraSubscription" -> UNCHANGED <<written, garbage>>   \* control: a second subscription, nothing sent
         [] r.ev = "Write" ->
              \* a local write through the API with the node's own clock; refused only if a newer entry is already held
              LET w2 == IF r.res = "ok" THEN written \cup {r.e} ELSE written IN
              /\ r.res \in {"ok", "err"}
              /\ r.res = "err" => \E f \in written : f.a = r.e.a /\ KeyPrefix(f.k, r.e.k) /\ ValLeq(r.e, f)
              /\ OnlyWritten(r, w2) /\ Normal(r)
              /\ written' = w2 /\ UNCHANGED garbage
         [] r.ev = "Quiet" ->
              \* the driver waited until all nodes showed the same contents for a while (r.converged) or gave up
              /\ r.converged \/ (garbage /\ ~GarbageTolerated)
              /\ r.converged => \A n \in 1..Len(r.sts) : ToSet(r.sts[n]) = Kept(written)
              /\ OnlyWritten(r, written) /\ Normal(r)
              /\ UNCHANGED <<written, garbage>>
         [] OTHER -> FALSE
  /\ l' = l + 1
Spec == Init /\ [][Step]_vars
Accepted ==
  IF TLCGet("stats").diameter - 1 = Len(Rec) THEN TRUE
  ELSE /\ PrintT(<<"REJECTED_AT", TLCGet("stats").diameter, "OF", Len(Rec)>>)
       /\ PrintT(<<"EVENT", ToJson(Rec[TLCGet("stats").diameter])>>)
       /\ FALSE
=============================================================================
