---- MODULE MCSwarm ----
EXTENDS Swarm
E(a, k, t, h) == [a |-> a, k |-> k, ts |-> t, h |-> h, len |-> IF h = 0 THEN 0 ELSE 1]
USw == {E(1, <<0>>, 1, 1), E(1, <<>>, 2, 0), E(1, <<0, 255>>, 3, 1), E(2, <<0>>, 1, 1), E(1, <<0>>, 3, 1)}
Chain3 == << <<1, 2>>, <<2, 3>>, <<1, 2>> >>
ASSUME AbsorptionLemma(USw)
====
