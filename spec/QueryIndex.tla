----------------------------- MODULE QueryIndex -----------------------------
(* The two physical access paths of queries (src/store/fs/query.rs, bounds.rs):
   a scan of records-1 ordered by (author, key) with a key filter, and a scan of
   the secondary index records-by-key-1 ordered by (key, author) whose rows are
   looked up in records-1 (rows of pruned entries stay behind as stale ids).
   TLC checks over every reachable (records, index) that both paths answer
   exactly what Query.tla prescribes (C05, design level).                      *)
EXTENDS Query

CONSTANTS Universe, MaxOffered, IndexMaintained   \* entry_put inserts the by-key row (FALSE: forgotten)

VARIABLES S, I, n
vars == <<S, I, n>>
Init == S = {} /\ I = {} /\ n = 0
Offer(e) == /\ n < MaxOffered /\ n' = n + 1
            /\ S' = Put(S, e)
            /\ I' = IF PutOk(S, e) /\ IndexMaintained THEN I \cup {<<e.k, e.a>>} ELSE I
Next == \E e \in Universe : Offer(e)
Spec == Init /\ [][Next]_vars

Keys == {e.k : e \in Universe}
Auths == {e.a : e \in Universe}
Q(kind, a, kf, key, sort, dir, ie) ==
  [kind |-> kind, a |-> a, kf |-> kf, key |-> key, sort |-> sort, dir |-> dir, ie |-> ie, off |-> 0, lim |-> -1]

\* key-range selection as the bounds are built (ByKeyBounds / RecordsBounds::author_key)
BoundOk(q, k) == CASE q.kf = "any" -> TRUE
                   [] q.kf = "exact" -> k = q.key
                   [] q.kf = "prefix" -> InBoundRange(q.key, k, PrefixBoundCarry)
Lookup(id) == {e \in S : e.k = id[1] /\ e.a = id[2]}
\* by-key index path (flat, any author, sort by key)
IndexFlat(q) ==
  LET ids == SetToSortSeq({id \in I : BoundOk(q, id[1])},
                          LAMBDA u, v : LexLess(u[1], v[1]) \/ (u[1] = v[1] /\ u[2] < v[2]))
      hits == SelectSeq(ids, LAMBDA id : \E e \in Lookup(id) : EmptyOk(q, e))
  IN Directed(q, [i \in 1..Len(hits) |-> CHOOSE e \in Lookup(hits[i]) : TRUE])
\* records path with a single author: author and key are selected by the range alone
ScanAuthor(q) ==
  LET M == {e \in S : e.a = q.a /\ BoundOk(q, e.k) /\ EmptyOk(q, e)}
  IN Directed(q, SetToSortSeq(M, AKLess))

PathsAgree ==
  \A kf \in {"any", "exact", "prefix"}, key \in Keys, dir \in {"asc", "desc"}, ie \in BOOLEAN :
     /\ IndexFlat(Q("flat", 0, kf, key, "ka", dir, ie)) = FlatResult(S, Q("flat", 0, kf, key, "ka", dir, ie))
     /\ \A a \in Auths :
          ScanAuthor(Q("flat", a, kf, key, "ak", dir, ie)) = FlatResult(S, Q("flat", a, kf, key, "ak", dir, ie))
NoLiveRecordWithoutIndexRow == \A e \in S : <<e.k, e.a>> \in I
=============================================================================
