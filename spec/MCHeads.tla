---- MODULE MCHeads ----
EXTENDS Heads
\* all head sets over <= 4 authors with timestamps around the varint boundary, every limit
Au == 1..4
Ts == {1, 2, 127, 128}
HeadSets == UNION {[D -> Ts] : D \in SUBSET Au}
Limits == {NoLimit} \cup 1..3 \cup 33..36 \cup 66..70 \cup 99..104 \cup 132..137
VARIABLES H, L
Init == H \in HeadSets /\ L \in Limits
Next == UNCHANGED <<H, L>>
MechSatisfiesSpec == EncodeOk(H, L, EncodeMech(H, L))
\* news: the count is zero iff ours dominates theirs
NewsLaw == \A O \in {h \in HeadSets : DOMAIN h \subseteq {1, 2}} :
             (NewsCount(H, O) = 0) = (\A a \in DOMAIN H : a \in DOMAIN O /\ O[a] >= H[a])
====
