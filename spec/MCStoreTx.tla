---- MODULE MCStoreTx ----
EXTENDS StoreTx
E(k, t, h) == [a |-> 1, k |-> k, ts |-> t, h |-> h, len |-> IF h = 0 THEN 0 ELSE 1]
UTx == {E(<<0>>, 1, 1), E(<<0, 1>>, 1, 1), E(<<>>, 2, 0), E(<<0>>, 2, 1)}
====
