------------------------------ MODULE Replica ------------------------------
(* One replica: the set of entries offered to it, the entries it holds, and the
   per-author heads table (latest-by-author-1) as the code maintains it.
   Properties C02 (order-independent function of the offered set, exact pruning)
   and the store part of C13 (heads = newest timestamp held, across removal and
   re-creation of the document).                                               *)
EXTENDS Entries, TLC

CONSTANTS Universe,          \* entries that may be offered (all valid)
          MaxOffered,        \* bound on |offered|
          HeadMonotone,      \* entry_put lowers a head only never (D4 when FALSE)
          RemoveClearsHeads  \* remove_replica erases the heads rows (D5 when FALSE)

VARIABLES offered, store, heads
vars == <<offered, store, heads>>

Init == offered = {} /\ store = {} /\ heads = <<>>

HeadAfter(hd, e) ==
  LET cur == IF e.a \in DOMAIN hd THEN hd[e.a] ELSE 0
      new == IF HeadMonotone /\ cur > e.ts THEN cur ELSE e.ts
  IN [a \in (DOMAIN hd) \cup {e.a} |-> IF a = e.a THEN new ELSE hd[a]]

\* insert (local insert, prefix delete and remote insert all reduce to this)
Offer(e) ==
  /\ Cardinality(offered \cup {e}) <= MaxOffered
  /\ offered' = offered \cup {e}
  /\ store' = Put(store, e)
  /\ heads' = IF PutOk(store, e) THEN HeadAfter(heads, e) ELSE heads

\* remove_replica followed by re-creation of the same document
RemoveDoc ==
  /\ store # {}
  /\ offered' = {} /\ store' = {}
  /\ heads' = IF RemoveClearsHeads THEN <<>> ELSE heads

Next == (\E e \in Universe : Offer(e)) \/ RemoveDoc
Spec == Init /\ [][Next]_vars

\* ---- C02 ----
StoreIsKeptOfOffered == store = Kept(offered)
Normalized == store = Kept(store)
\* per-step obligations, phrased without the mechanism
StepSpec(e) ==
  /\ PutOk(store, e) <=> SpecPutOk(store, e)
  /\ SpecPutOk(store, e) =>
        /\ store' = (store \ SpecPruned(store, e)) \cup {e}
        /\ RemovedCount(store, e) = Cardinality(SpecPruned(store, e))
  /\ ~SpecPutOk(store, e) => store' = store
  /\ {f \in store : f.a # e.a} = {f \in store' : f.a # e.a}
StepOk == [][\A e \in Universe : Offer(e) => StepSpec(e)]_vars

\* ---- C13 (store part) ----
HeadsExact == heads = HeadsOf(store)
=============================================================================
