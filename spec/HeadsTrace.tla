----------------------------- MODULE HeadsTrace -----------------------------
(* Trace validation of AuthorHeads::encode / decode / has_news_for calls on the
   real code (harness `vdrive heads`).                                         *)
EXTENDS Heads, Json, IOUtils

Rec == ndJsonDeserialize(IOEnv.TRACE)
VARIABLE l
vars == <<l>>

Fn(hs) == [a \in {hs[i].a : i \in 1..Len(hs)} |-> hs[CHOOSE i \in 1..Len(hs) : hs[i].a = a].ts]
Unique(hs) == \A i, j \in 1..Len(hs) : hs[i].a = hs[j].a => i = j

Check(r) ==
  CASE r.ev = "Reset" -> TRUE
    [] r.ev = "Encode" ->
         LET H == Fn(r.heads)
             D == Fn(r.decoded)
         IN /\ r.res = "ok"
            /\ Unique(r.decoded)
            /\ EncodeOk(H, r.limit, DOMAIN D)
            /\ D = [a \in DOMAIN D |-> H[a]]
            /\ r.enclen = Size(H, DOMAIN D)
    [] r.ev = "News" ->
         r.count = NewsCount(Fn(r.theirs), Fn(r.ours))
    [] OTHER -> FALSE

Init == l = 1
Step == l <= Len(Rec) /\ Check(Rec[l]) /\ l' = l + 1
Spec == Init /\ [][Step]_vars
Accepted ==
  IF TLCGet("stats").diameter - 1 = Len(Rec) THEN TRUE
  ELSE /\ PrintT(<<"REJECTED_AT", TLCGet("stats").diameter, "OF", Len(Rec)>>)
       /\ PrintT(<<"EVENT", ToJson(Rec[TLCGet("stats").diameter])>>)
       /\ FALSE
=============================================================================
