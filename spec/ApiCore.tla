------------------------------- MODULE ApiCore -------------------------------
(* The client API (src/api.rs, src/api/actor.rs) and the engine behind it
   (src/engine.rs, src/engine/live.rs start_sync / leave, DefaultAuthor): every
   call is a short, fixed composition of store-actor requests (ActorCore!ActorStep)
   plus the live actor's own bookkeeping (which documents it is syncing - for each
   of them it holds one handle with sync enabled and one subscription) and the
   node-wide default author.  ApiStep is the sequential meaning of one call; the
   RPC actor serves calls one at a time, so this is also the concurrent meaning.

   S = [st      : the store actor's state (ActorCore),
        live    : documents the live actor syncs,
        def     : the default author,
        dur     : authors known to be committed to the database file (crash view),
        nextsid : next subscriber id handed out]                                *)
EXTENDS ActorCore

CONSTANT SetDefaultFlushes   \* author_set_default commits the store before writing the default-author file
                             \* (FALSE is what src/engine.rs DefaultAuthor::set does)

LiveSid == 0   \* the live actor's own subscription on the replica event channel

RECURSIVE RunAll(_, _)
\* run actor requests in order, stop at the first refusal (the `?` of the handlers)
RunAll(st, qs) ==
  IF qs = <<>> THEN Ok(st, <<>>)
  ELSE LET R == ActorStep(st, Head(qs)) IN
       IF R.res # "ok" \/ Len(qs) = 1 THEN R ELSE RunAll(R.st, Tail(qs))

OpenReq(d, sync, sub, sid) == [op |-> "Open", d |-> d, sync |-> sync, sub |-> sub, sid |-> sid]

\* live.rs start_sync (no peers): open with sync + subscription unless already syncing
StartSync(S, d) ==
  IF d \in S.live THEN [S |-> S, res |-> "ok", val |-> <<>>]
  ELSE LET R == ActorStep(S.st, OpenReq(d, TRUE, TRUE, LiveSid)) IN
       IF R.res = "ok" THEN [S |-> [S EXCEPT !.st = R.st, !.live = @ \cup {d}], res |-> "ok", val |-> <<>>]
       ELSE [S |-> S, res |-> R.res, val |-> <<>>]

\* live.rs leave: the document leaves the syncing set first; then sync off, unsubscribe, release the handle.
\* A refusal on the way aborts the rest (the document stays out of the syncing set).
Leave(S, d) ==
  IF d \notin S.live THEN [S |-> S, res |-> "ok", val |-> <<>>]
  ELSE LET R == RunAll(S.st, << [op |-> "SetSync", d |-> d, sync |-> FALSE],
                                [op |-> "Unsubscribe", d |-> d, sid |-> LiveSid],
                                [op |-> "Close", d |-> d] >>)
       IN [S |-> [S EXCEPT !.st = R.st, !.live = @ \ {d}], res |-> R.res, val |-> <<>>]

Reply(S, R) == [S |-> [S EXCEPT !.st = R.st], res |-> R.res, val |-> R.val]
Plain(S, res, val) == [S |-> S, res |-> res, val |-> val]
Commit(S) == [S EXCEPT !.dur = S.st.authors]

ApiStep(S, c) ==
  CASE c.op = "AuthorCreate" \/ c.op = "AuthorImport" ->
         Plain([S EXCEPT !.st.authors = @ \cup {c.a}], "ok", <<>>)
    [] c.op = "AuthorDelete" ->
         IF c.a = S.def THEN Plain(S, "DefaultAuthor", <<>>)
         ELSE Plain([S EXCEPT !.st.authors = @ \ {c.a}], "ok", <<>>)
    [] c.op = "AuthorSetDefault" ->
         IF c.a \notin S.st.authors THEN Plain(S, "AuthorNotFound", <<>>)
         ELSE Plain([(IF SetDefaultFlushes THEN Commit(S) ELSE S) EXCEPT !.def = c.a], "ok", <<>>)
    [] c.op = "AuthorDefault" -> Plain(S, "ok", <<S.def>>)
    [] c.op = "AuthorExport" -> Plain(S, "ok", <<c.a \in S.st.authors>>)
    [] c.op = "AuthorList" -> Plain(Commit(S), "ok", <<S.st.authors>>)          \* snapshot read: commits
    [] c.op = "Create" ->
         Reply(S, RunAll(S.st, << [op |-> "Import", d |-> c.d, kind |-> "write"], OpenReq(c.d, FALSE, FALSE, 0) >>))
    [] c.op = "ImportNs" ->
         Reply(S, RunAll(S.st, << [op |-> "Import", d |-> c.d, kind |-> c.kind], OpenReq(c.d, FALSE, FALSE, 0) >>))
    [] c.op = "Open" -> Reply(S, ActorStep(S.st, OpenReq(c.d, FALSE, FALSE, 0)))
    [] c.op = "Close" -> Reply(S, ActorStep(S.st, [op |-> "Close", d |-> c.d]))
    [] c.op = "Status" -> Reply(S, ActorStep(S.st, [op |-> "GetState", d |-> c.d]))
    [] c.op = "StartSync" -> StartSync(S, c.d)
    [] c.op = "Leave" -> Leave(S, c.d)
    [] c.op = "Share" ->
         LET X == IF c.mode = "write" THEN ActorStep(S.st, [op |-> "ExportSecret", d |-> c.d]) ELSE Ok(S.st, <<>>) IN
         IF X.res # "ok" THEN Plain(S, X.res, <<>>) ELSE StartSync(S, c.d)
    [] c.op = "DropDoc" ->
         LET L == Leave(S, c.d) IN
         IF L.res # "ok" THEN L ELSE Reply(L.S, ActorStep(L.S.st, [op |-> "Drop", d |-> c.d]))
    [] c.op = "Subscribe" ->
         LET R == ActorStep(S.st, [op |-> "Subscribe", d |-> c.d, sid |-> S.nextsid]) IN
         IF R.res = "ok" THEN Plain([S EXCEPT !.st = R.st, !.nextsid = @ + 1], "ok", <<>>) ELSE Plain(S, R.res, <<>>)
    [] c.op = "SetHash" -> Reply(S, ActorStep(S.st, [op |-> "InsertLocal", d |-> c.d, e |-> c.e]))
    [] c.op = "Del" -> Reply(S, ActorStep(S.st, [op |-> "DeletePrefix", d |-> c.d, e |-> c.e]))
    [] c.op = "GetExact" -> Reply(S, ActorStep(S.st, [op |-> "GetExact", d |-> c.d, a |-> c.a, k |-> c.k]))
    [] c.op = "GetMany" -> Reply(Commit(S), ActorStep(S.st, [op |-> "GetMany", d |-> c.d]))   \* snapshot read
    [] c.op = "List" ->
         Plain(Commit(S), "ok", <<{<<d, S.st.docs[d].cap>> : d \in {x \in DOMAIN S.st.docs : S.st.docs[x].cap # "none"}}>>)
    [] OTHER -> Plain(S, "BadRequest", <<>>)

\* graceful restart of the node on the same directory: handles, subscriptions and the syncing set are gone,
\* documents, authors and the default author stay
Restarted(S) == [Commit(S) EXCEPT !.st.open = <<>>, !.live = {}]

\* ---- what must hold of any reachable S (checked in Api.tla, asserted on traces) ----
\* the default author always exists
DefaultExists(S) == S.def \in S.st.authors
\* the live actor holds one handle with sync enabled and its subscription on every document it syncs
LiveHoldsHandle(S) == \A d \in S.live : IsOpen(S.st, d) /\ S.st.open[d].sync /\ LiveSid \in S.st.open[d].subs
\* a crash image can be started: the default-author file never names an author missing from the file
NoDanglingDefault(S) == S.def \in S.dur
=============================================================================
