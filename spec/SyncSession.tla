----------------------------- MODULE SyncSession -----------------------------
(* Model: an adversarial peer sends any frame sequence (bounded) to the acceptor
   while the local replica may be closed / disabled / shut down before each
   frame; the acceptor always terminates with a result and its outcome can always
   be reported (C10).                                                          *)
EXTENDS SyncSessionCore

CONSTANTS MaxFrames
Frames == {"InitOk", "InitItems", "InitUnknown", "InitBadId", "SyncValid", "SyncArb", "SyncBadId", "Abort", "Garbage", "Oversize", "Partial", "PartialPrefix", "Eof"}
Conds == {"ok", "closed", "syncoff", "down"}

VARIABLES st, cond, accept, n, result
vars == <<st, cond, accept, n, result>>
Init == st = BobInit /\ cond = "ok" /\ accept \in {"Allow", "Reject"} /\ n = 0 /\ result = "running"

Fault(c) == result = "running" /\ cond = "ok" /\ c # "ok" /\ cond' = c /\ UNCHANGED <<st, accept, n, result>>
Deliver(f) ==
  /\ result = "running"
  /\ (n < MaxFrames \/ f = "Eof")        \* the stream always ends
  /\ \E r \in BobReact(st, f, cond, accept) :
       /\ st' = r[2]
       /\ result' = IF r[1] \in Terminal THEN r[1] ELSE "running"
  /\ n' = n + 1 /\ UNCHANGED <<cond, accept>>
Next == (\E c \in Conds : Fault(c)) \/ (\E f \in Frames : Deliver(f))
Spec == Init /\ [][Next]_vars /\ WF_vars(Deliver("Eof"))

\* the acceptor can always report its outcome once run() returned
OutcomeReportable == result # "running" => st.prog = "some"
\* a declined request never takes the progress nor processes anything
DeclineIsInert == (result = "abort") => (st.prog = "some" /\ ~st.ns)
\* once the stream is closed the session has ended
EndsWhenClosed == <>(result # "running")
=============================================================================
