SPECIFICATION Spec
CONSTANTS
 Universe <- U1
 MaxInit = 2
 Configs <- Cfg21
 MaxRounds = 12
 Shards = 1
 Shard = 0
 ParentsSeeMarkers = TRUE
 EmptyKeyIsParent = TRUE
 PrefixBoundCarry = TRUE
 ValidateEmptyInSync = TRUE
 MaxShift = 600000000
INVARIANTS Terminates Converges Mirror SecondIsQuiet Normal NoDebugAssert CarriedWereHeld NoForeign
CHECK_DEADLOCK FALSE
