---------------------------- MODULE LiveSyncTrace ----------------------------
(* Trace validation of the real LiveActor coordination handlers (harness
   `vdrive livesync`): every recorded step is one action of LiveSync.tla with the
   logged parameters; the slot and resync flag of both real nodes after the step,
   the accept decision and the dials actually started must equal what the action
   prescribes, and all C11 invariants are evaluated on every state of the trace. *)
EXTENDS LiveSync, Json, IOUtils

Rec == ndJsonDeserialize(IOEnv.TRACE)
VARIABLE l
tvars == <<vars, l>>

Matches(r) ==
  /\ st' = [n \in Node |-> r.st[n]]
  /\ syncing' = {n \in Node : r.insync[n]}        \* the sync set of the real nodes (NamespaceStates::is_syncing)
  /\ resync' = [n \in Node |-> r.resync[n]]
  \* dials started by the real handlers = dials appended by the action
  /\ Len(dials') = Len(dials) + Len(r.started)
  /\ \A i \in 1..Len(r.started) :
       \* (the reason a follow-up dial is labelled with is not C11's business: it has no effect on an idle slot)
       LET nw == dials'[Len(dials) + i] IN nw.from = r.started[i].from
                                            /\ (r.ev \in {"Dial", "StartSync"} => nw.reason = r.started[i].reason)

Act(r) ==
  CASE r.ev = "Dial" -> Dial(r.n, r.reason)
    [] r.ev = "LoseRequest" -> LoseRequest(r.d)
    [] r.ev = "DeliverRequest" -> DeliverRequest(r.d) /\ r.obs = AcceptDecision(Other(dials[r.d].from))
    [] r.ev = "DeliverAbort" -> DeliverAbort(r.d, r.res = "lost")
    [] r.ev = "EndDialer" -> EndDialer(r.d, r.res)
    [] r.ev = "EndAcceptor" -> EndAcceptor(r.d, r.res)
    [] r.ev = "HandleConnectDone" -> HandleConnectDone(r.d) /\ dials[r.d].cres = r.res
    [] r.ev = "HandleAcceptDone" -> HandleAcceptDone(r.d) /\ dials[r.d].ares = r.res
    [] r.ev = "StartSync" -> StartSyncAgain(r.n)
    [] r.ev = "Leave" -> Leave(r.n)
    [] r.ev = "Join" -> Join(r.n, Len(r.started) = 1)
    [] r.ev = "QueueDownload" -> QueueDownload(r.n)
    [] r.ev = "DownloadReady" -> DownloadReady(r.n, r.res = "ok")
    [] OTHER -> FALSE

TInit == Init /\ l = 1
TStep ==
  /\ l <= Len(Rec)
  /\ LET r == Rec[l] IN
     IF r.ev = "Reset"
     THEN /\ st' = [n \in Node |-> "Idle"] /\ resync' = [n \in Node |-> FALSE] /\ dials' = <<>>
          /\ syncing' = {r.syncing[i] : i \in 1..Len(r.syncing)} /\ syncing0' = syncing'
          /\ pend' = [n \in Node |-> FALSE] /\ leaves' = 0
          /\ owed' = [n \in Node |-> FALSE] /\ bad' = {} /\ hist' = <<>>
     ELSE Act(r) /\ Matches(r)
  /\ l' = l + 1
TSpec == TInit /\ [][TStep]_tvars

\* depth reached (the trace specification can branch on `syncing` in Init)
Accepted ==
  IF TLCGet("stats").diameter - 1 = Len(Rec) THEN TRUE
  ELSE /\ PrintT(<<"REJECTED_AT", TLCGet("stats").diameter, "OF", Len(Rec)>>)
       /\ PrintT(<<"EVENT", ToJson(Rec[TLCGet("stats").diameter])>>)
       /\ FALSE
=============================================================================
