---------------------------- MODULE SessionTrace ----------------------------
(* Trace validation of complete two-replica reconciliation sessions recorded
   from real stores (harness `vdrive session`): the whole transcript, message by
   message, must equal what Ranger.Process prescribes for the logged pre-state
   (C08: the redb store behaves as the reference ordered map), and at the end of
   a session both replicas must hold Kept(A0 \cup B0), counts must mirror, and an
   immediately following session must be quiet (C01).                          *)
EXTENDS Ranger, Json, IOUtils

CONSTANTS Prop,       \* "C01" | "C08"
          RoundBound  \* bound on messages per session that is checked (C01 termination)

Rec == ndJsonDeserialize(IOEnv.TRACE)

VARIABLES l, A, B, A0, B0, wire, fpmap, cntA, cntB, rounds
vars == <<l, A, B, A0, B0, wire, fpmap, cntA, cntB, rounds>>

EmptyHex == "af1349b9f5f9a1a6a0404dea36dcc9499bcb25c9adc112b7cc9a93cae41f3262"
Impossible == {[a |-> -1, k |-> <<>>, ts |-> 0, h |-> 0, len |-> 0]}
Lookup(hex) ==
  IF hex = EmptyHex THEN {}
  ELSE IF \E p \in fpmap : p[1] = hex THEN (CHOOSE p \in fpmap : p[1] = hex)[2]
  ELSE Impossible
HexFpEq(set, hex) == set = Lookup(hex)
HexFpEmpty(hex) == hex = EmptyHex

PartShapeEq(sp, lg) ==
  \* (the have_local hint of an outgoing part is not compared: it only asks the peer for a reply, and whether that reply
  \*  was needed shows in the final sets - the next step is computed from the part as it was actually received)
  /\ sp.t = lg.t /\ sp.x = lg.x /\ sp.y = lg.y
  /\ Len(sp.vals) = Len(lg.vals)
  /\ \A i \in 1..Len(sp.vals) : sp.vals[i].e = lg.vals[i].e /\ sp.vals[i].cs = lg.vals[i].cs
ShapeEq(spec, logged) ==
  Len(spec) = Len(logged) /\ \A i \in 1..Len(spec) : PartShapeEq(spec[i], logged[i])
NewFpPairs(spec, logged) ==
  {<<logged[i].fp, spec[i].fp>> : i \in {j \in 1..Len(spec) : spec[j].t = "fp"}}
Injective(m) == \A p \in m, q \in m : (p[1] = q[1]) = (p[2] = q[2])

Zero == [recv |-> 0, sent |-> 0]

Init == /\ l = 1 /\ A = {} /\ B = {} /\ A0 = {} /\ B0 = {} /\ wire = <<>>
        /\ fpmap = {<<EmptyHex, {}>>} /\ cntA = Zero /\ cntB = Zero /\ rounds = 0

DoReset(r) ==
  /\ A' = ToSet(r.A0) /\ B' = ToSet(r.B0) /\ A0' = ToSet(r.A0) /\ B0' = ToSet(r.B0)
  /\ wire' = <<>> /\ fpmap' = {<<EmptyHex, {}>>} /\ cntA' = Zero /\ cntB' = Zero /\ rounds' = 0

DoInit(r) ==
  LET m == InitMsg(A) IN
  /\ r.side = "A" /\ r.res = "ok"
  /\ ToSet(r.st) = A
  /\ ShapeEq(m, r.msg)
  /\ Injective(fpmap \cup NewFpPairs(m, r.msg))
  /\ fpmap' = fpmap \cup NewFpPairs(m, r.msg)
  /\ wire' = r.msg /\ cntA' = Zero /\ cntB' = Zero /\ rounds' = 0
  /\ UNCHANGED <<A, B, A0, B0>>

DoProc(r) ==
  LET pre == IF r.side = "A" THEN A ELSE B
      cnt == IF r.side = "A" THEN cntA ELSE cntB
      R   == Process(pre, wire, r.cfg, r.now, HexFpEq, HexFpEmpty)
      c2  == [recv |-> cnt.recv + ValueCount(wire), sent |-> cnt.sent + ValueCount(r.reply)]
  IN /\ r.parts = wire                     \* the message delivered is the one sent
     /\ r.res = "ok"
     /\ ToSet(r.st) = R.S
     /\ ShapeEq(R.out, r.reply)
     /\ Injective(fpmap \cup NewFpPairs(R.out, r.reply))
     /\ ~R.bad
     /\ r.recv = c2.recv /\ r.sent = c2.sent
     /\ fpmap' = fpmap \cup NewFpPairs(R.out, r.reply)
     /\ wire' = r.reply
     /\ rounds' = rounds + 1
     /\ (Prop = "C01" => rounds + 1 <= RoundBound)
     /\ IF r.side = "A" THEN A' = R.S /\ cntA' = c2 /\ UNCHANGED <<B, cntB>>
                        ELSE B' = R.S /\ cntB' = c2 /\ UNCHANGED <<A, cntA>>
     /\ UNCHANGED <<A0, B0>>

DoDone(r) ==
  /\ wire = <<>>
  /\ ToSet(r.stA) = A /\ ToSet(r.stB) = B
  /\ r.recvA = cntA.recv /\ r.sentA = cntA.sent /\ r.recvB = cntB.recv /\ r.sentB = cntB.sent
  /\ Prop = "C01" =>
       /\ A = B /\ A = Kept(A0 \cup B0)                    \* convergence to the join
       /\ cntA.sent = cntB.recv /\ cntB.sent = cntA.recv    \* counts mirror
       /\ r.phase = 2 => (rounds = 1 /\ cntA.sent = 0 /\ cntB.sent = 0 /\ cntA.recv = 0 /\ cntB.recv = 0)
  /\ UNCHANGED <<A, B, A0, B0, wire, fpmap, cntA, cntB, rounds>>

Step ==
  /\ l <= Len(Rec)
  /\ LET r == Rec[l] IN
       CASE r.ev = "Reset" -> DoReset(r)
         [] r.ev = "SInit" -> DoInit(r)
         [] r.ev = "SProc" -> DoProc(r)
         [] r.ev = "SDone" -> DoDone(r)
         [] OTHER -> FALSE
  /\ l' = l + 1

Spec == Init /\ [][Step]_vars
Accepted ==
  IF TLCGet("stats").diameter - 1 = Len(Rec) THEN TRUE
  ELSE /\ PrintT(<<"REJECTED_AT", TLCGet("stats").diameter, "OF", Len(Rec)>>)
       /\ PrintT(<<"EVENT", ToJson(Rec[TLCGet("stats").diameter])>>)
       /\ FALSE
=============================================================================
