---- MODULE MCFraming ----
EXTENDS Framing
L3 == <<0, 2, 1>>
====
