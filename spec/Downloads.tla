------------------------------ MODULE Downloads ------------------------------
(* Content-download bookkeeping of the live actor (src/engine/live.rs:
   on_replica_event, start_download, on_download_ready, on_neighbor_content_ready,
   the tail of on_sync_finished; src/engine/state.rs may_emit_ready).

   The live actor learns of entries inserted from remote (RemoteInsert replica
   events), queues a download for content a peer has, remembers content nobody is
   known to have as missing, retries a missing hash when a neighbour announces it
   has it, and tells subscribers when a content arrived (ContentReady) and when,
   after a finished sync, nothing is queued for the document any more
   (PendingContentReady).  One action per handler; DStep is the sequential meaning
   shared by the model and the trace specification (DownloadsTrace.tla).

   D = [have    : hashes complete in the blob store,
        queued  : hash -> set of documents waiting for it (a download task is running),
        missing : hashes wanted but not queued,
        may     : documents for which a PendingContentReady is owed once their queue empties,
        syncing : documents in the sync set]                                      *)
EXTENDS Naturals, FiniteSets, Sequences, TLC

CONSTANT ReadyToAllDocs   \* ContentReady goes to every document that waits for the hash
                          \* (FALSE = only to the document whose insert started the download task; what the code does)

QueuedFor(D, ns) == {h \in DOMAIN D.queued : ns \in D.queued[h]}
SetQ(D, h, S) == [D EXCEPT !.queued = [x \in (DOMAIN D.queued) \cup {h} |-> IF x = h THEN S ELSE D.queued[x]]]
DelQ(D, h) == [D EXCEPT !.queued = [x \in (DOMAIN D.queued) \ {h} |-> D.queued[x]]]

Out(D, evs, started) == [D |-> D, evs |-> evs, started |-> started]
Ev(ns, kind, h) == [ns |-> ns, kind |-> kind, h |-> h]

\* start_download(namespace, hash, node, only_if_missing)
StartDownload(D, ns, h, onlyIfMissing) ==
  IF h \in D.have THEN Out([D EXCEPT !.missing = @ \ {h}], <<>>, {})
  ELSE IF h \in DOMAIN D.queued THEN Out(SetQ(D, h, D.queued[h] \cup {ns}), <<>>, {})
  ELSE IF ~onlyIfMissing \/ h \in D.missing
       THEN Out([SetQ(D, h, {ns}) EXCEPT !.missing = @ \ {h}], <<>>, {<<ns, h>>})   \* a download task is spawned for (ns, h)
       ELSE Out(D, <<>>, {})

\* c = [op |-> ..]; returns the new state, the subscriber events emitted (in order) and the download tasks started
DStep(D, c) ==
  CASE c.op = "RemoteInsert" ->          \* on_replica_event(RemoteInsert{should_download, remote_content_status})
         IF ~c.dl THEN Out(D, <<>>, {})
         ELSE IF c.complete THEN StartDownload(D, c.ns, c.h, FALSE)
         ELSE Out([D EXCEPT !.missing = @ \cup {c.h}], <<>>, {})
    [] c.op = "NeighborReady" -> StartDownload(D, c.ns, c.h, TRUE)     \* on_neighbor_content_ready
    [] c.op = "DownloadReady" ->         \* on_download_ready(namespace, hash, res) - the task started for (ns, h) finished
         LET waiting == IF c.h \in DOMAIN D.queued THEN D.queued[c.h] ELSE {}
             D1 == DelQ(D, c.h)
             done == {n \in waiting : QueuedFor(D1, n) = {}}
             D2 == IF c.ok THEN [D1 EXCEPT !.have = @ \cup {c.h}] ELSE [D1 EXCEPT !.missing = @ \cup {c.h}]
             readyTo == IF ReadyToAllDocs THEN waiting \cup {c.ns} ELSE {c.ns}
             ready == IF c.ok THEN {Ev(n, "ContentReady", c.h) : n \in readyTo} ELSE {}
             pend == {Ev(n, "PendingContentReady", 0) : n \in done \cap D.may}
         IN [D |-> [D2 EXCEPT !.may = @ \ done], evs |-> <<ready, pend>>, started |-> {}]
    [] c.op = "SyncFinished" ->          \* tail of on_sync_finished, for a document in the sync set
         IF c.ns \notin D.syncing THEN Out(D, <<>>, {})
         ELSE IF QueuedFor(D, c.ns) # {} THEN Out([D EXCEPT !.may = @ \cup {c.ns}], <<>>, {})
         ELSE [D |-> [D EXCEPT !.may = @ \ {c.ns}], evs |-> <<{Ev(c.ns, "PendingContentReady", 0)}>>, started |-> {}]
    [] c.op = "Have" -> Out([D EXCEPT !.have = @ \cup {c.h}], <<>>, {})       \* the content arrived by other means
    [] c.op = "Leave" -> Out([D EXCEPT !.syncing = @ \ {c.ns}, !.may = @ \ {c.ns}], <<>>, {})
    [] c.op = "Join" -> Out([D EXCEPT !.syncing = @ \cup {c.ns}], <<>>, {})
    [] OTHER -> Out(D, <<>>, {})
=============================================================================
