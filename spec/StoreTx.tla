------------------------------ MODULE StoreTx ------------------------------
(* Transactions of the file-backed store (src/store/fs.rs Store::tables / modify /
   flush / snapshot): one lazily opened redb write transaction collects all
   changes; it is committed by flush, by any snapshot read, and - when it is older
   than MAX_COMMIT_DELAY - right before the next table access.  A store call is a
   short sequence of table accesses, so the age-based commit can fall between
   them.  C06: whatever instant the process dies, the durable state is a state
   the store had at a boundary between two complete calls, not older than the
   last acknowledged flush.                                                    *)
EXTENDS Entries, Sequences, TLC

CONSTANTS Universe, MaxCalls,
          PutAtomic,    \* pruning and writing of an insert happen in one table access (D11 when FALSE)
          FailKeepsTx,  \* a store call that fails leaves the open write transaction alone (FALSE: it is dropped)
          RemoveAtomic  \* remove_replica clears records, index, heads and settings in one table access (FALSE: the records
                        \* go in one access and the heads / settings in another, and the age-based commit can fall between)

VARIABLES durable,   \* committed contents
          work,      \* contents as seen through the open transaction
          dheads,    \* committed per-author heads (a derived table of its own: latest-by-author)
          wheads,    \* heads as seen through the open transaction
          txopen,    \* a write transaction is open
          aged,      \* the open transaction is older than MAX_COMMIT_DELAY
          pending,   \* remaining access steps of the call in progress: sequence of <<kind, entry>>
          boundary,  \* history: specified contents at every call boundary since (and including) the last commit point
          acked,     \* history: the contents according to the acknowledged calls (sequential meaning, Entries!Put)
          ncalls, crashed
vars == <<durable, work, dheads, wheads, txopen, aged, pending, boundary, acked, ncalls, crashed>>

NoHeads == HeadsOf({})
Init == /\ durable = {} /\ work = {} /\ dheads = NoHeads /\ wheads = NoHeads /\ txopen = FALSE /\ aged = FALSE /\ pending = <<>>
        /\ boundary = {{}} /\ acked = {} /\ ncalls = 0 /\ crashed = FALSE

\* the access steps of Store::put for entry e
Steps(e) == IF PutAtomic THEN << <<"check", e>>, <<"prune+put", e>> >>
            ELSE << <<"check", e>>, <<"prune", e>>, <<"put", e>> >>

BeginInsert(e) ==
  /\ ~crashed /\ pending = <<>> /\ ncalls < MaxCalls
  /\ pending' = Steps(e) /\ ncalls' = ncalls + 1
  /\ UNCHANGED <<durable, work, dheads, wheads, txopen, aged, boundary, acked, crashed>>

\* remove_replica of the (closed) document: everything of it goes - in one table access, or (RemoveAtomic = FALSE) the
\* records in one and the heads in another
NoEntry == [a |-> 0, k |-> <<>>, ts |-> 0, h |-> 0, len |-> 0]
RemoveSteps == IF RemoveAtomic THEN << <<"remove", NoEntry>> >>
               ELSE << <<"remove-records", NoEntry>>, <<"remove-heads", NoEntry>> >>
BeginRemove ==
  /\ ~crashed /\ pending = <<>> /\ ncalls < MaxCalls
  /\ pending' = RemoveSteps /\ ncalls' = ncalls + 1
  /\ UNCHANGED <<durable, work, dheads, wheads, txopen, aged, boundary, acked, crashed>>

\* a store call whose closure fails after the write transaction was opened (set_download_policy / register_useful_peer
\* on a missing document, a capability clash on import): Store::modify returns the error
FailingCall ==
  /\ ~crashed /\ pending = <<>> /\ ncalls < MaxCalls
  /\ LET commitFirst == txopen /\ aged
         dur == IF commitFirst THEN work ELSE durable
         dh == IF commitFirst THEN wheads ELSE dheads
     IN /\ durable' = dur /\ dheads' = dh
        /\ work' = IF FailKeepsTx THEN work ELSE dur
        /\ wheads' = IF FailKeepsTx THEN wheads ELSE dh
        /\ txopen' = FailKeepsTx
        /\ aged' = FALSE
        /\ boundary' = IF commitFirst THEN {acked} ELSE boundary
  /\ ncalls' = ncalls + 1
  /\ UNCHANGED <<pending, acked, crashed>>

\* one table access: the age-based commit fires first if the transaction is aged
Access ==
  /\ ~crashed /\ pending # <<>>
  /\ LET commitFirst == txopen /\ aged
         dur == IF commitFirst THEN work ELSE durable
         s == Head(pending)  e == s[2]
         isRemove == s[1] \in {"remove", "remove-records", "remove-heads"}
         w2 == CASE s[1] \in {"remove", "remove-records"} -> {}
                 [] s[1] = "remove-heads" -> work
                 [] s[1] = "check" -> work
                 [] s[1] = "prune" -> IF PutOk(work, e) THEN work \ Pruned(work, e) ELSE work
                 [] s[1] = "put" -> IF PutOk(work \cup Pruned(work, e), e) \/ TRUE THEN (work \ {f \in work : SameId(f, e)}) \cup {e} ELSE work
                 [] s[1] = "prune+put" -> Put(work, e)
         \* a rejected insert stops after the check
         rest == IF s[1] = "check" /\ ~PutOk(work, e) THEN <<>> ELSE Tail(pending)
         \* the heads table follows every write of an entry; a removal clears it in the step that owns it
         h2 == CASE s[1] \in {"remove", "remove-heads"} -> NoHeads
                 [] s[1] = "remove-records" -> wheads
                 [] OTHER -> HeadsOf(w2)
         done == IF isRemove THEN {} ELSE Put(acked, e)
     IN /\ durable' = dur /\ dheads' = (IF commitFirst THEN wheads ELSE dheads)
        /\ work' = w2 /\ wheads' = h2
        /\ txopen' = TRUE
        /\ aged' = FALSE
        /\ pending' = rest
        \* a commit restarts the history of candidate boundaries at the committed state; finishing a call adds one
        /\ acked' = IF rest = <<>> THEN done ELSE acked
        /\ boundary' = (IF commitFirst THEN (IF pending \in {Steps(e), RemoveSteps} THEN {acked} ELSE boundary) ELSE boundary)
                       \cup (IF rest = <<>> THEN {done} ELSE {})
  /\ UNCHANGED <<ncalls, crashed>>

Tick == /\ ~crashed /\ txopen /\ ~aged /\ aged' = TRUE
        /\ UNCHANGED <<durable, work, dheads, wheads, txopen, pending, boundary, acked, ncalls, crashed>>

\* flush / snapshot read between two calls
\* Flush stands for every point at which the code commits on request: Store::flush, the store actor's flush_store and
\* idle-timer flush, a snapshot read, and the commit the actor makes in its shutdown path before it hands the store back
\* (the last one is logged by the actor drive as a step of kind "Flush": the image is taken right after
\* SyncHandle::shutdown() returned, with the returned store still held)
Flush == /\ ~crashed /\ pending = <<>> /\ txopen
         /\ durable' = work /\ dheads' = wheads /\ txopen' = FALSE /\ aged' = FALSE /\ boundary' = {acked}
         /\ UNCHANGED <<work, wheads, pending, acked, ncalls, crashed>>

Crash == /\ ~crashed /\ crashed' = TRUE
         /\ UNCHANGED <<durable, work, dheads, wheads, txopen, aged, pending, boundary, acked, ncalls>>

Next == (\E e \in Universe : BeginInsert(e)) \/ BeginRemove \/ FailingCall \/ Access \/ Tick \/ Flush \/ Crash
Spec == Init /\ [][Next]_vars

\* C06: the state found after a crash is one the live store had between two complete calls,
\* not older than the last flush
CrashStateIsBoundary == crashed => durable \in boundary
DurableIsNormal == durable = Kept(durable)
\* whatever instant the process dies, the per-author heads found agree with the records found
DurableDerivedAgree == dheads = HeadsOf(durable)
\* between two calls the live store holds exactly what the acknowledged calls say
LiveIsAcked == (pending = <<>>) => work = acked
=============================================================================
