--------------------------- MODULE FramingTrace ---------------------------
(* Trace validation of the real stream decoder and of the other decoders'
   outcome alphabet (harness `vdrive codec`).                               *)
EXTENDS FramingCore, Json, IOUtils

Rec == ndJsonDeserialize(IOEnv.TRACE)
VARIABLES l, frames, mode, bad, tfed, tpos, tk, dead
tvars == <<l, frames, mode, bad, tfed, tpos, tk, dead>>

Lens2 == [i \in 1..Len(frames) |-> frames[i].len]
MaxFrame == 1073741824
NoLens == <<>>
PinnedHex(what) ==
  CASE what = "signed_entry" -> "4b523f1b6d9b00a4779fc9f8f105a9e36f062ceb7d511b632905782042ad30acb6dd07bfced4ecd5f3aa58321e8ace63f48f988ed8461bfdcd8b0e902187a10e228ddc6998329b7faa64875fe80da36406ea8d87e3e57bb048323e9cb66c0b343b60c4e709fb978b878e37d0c362edfc06c8cdc774c8b29d94e48eaa06cca60f5055154f42065ea5a1bea05463826be2684eb92df92c100027aabaae57ca554207bc7cbcb5636375fa1d82434d466724d92377f53b980695dd49d26d0ce12205a5776972652d666f726d61742d7465737400af1349b9f5f9a1a6a0404dea36dcc9499bcb25c9adc112b7cc9a93cae41f32628080f9c0c1c48203"
    [] what = "author" -> "20a1a1a1a1a1a1a1a1a1a1a1a1a1a1a1a1a1a1a1a1a1a1a1a1a1a1a1a1a1a1a1a1"
    [] what = "namespace_secret" -> "20b2b2b2b2b2b2b2b2b2b2b2b2b2b2b2b2b2b2b2b2b2b2b2b2b2b2b2b2b2b2b2b2"
    [] what = "namespace_id" -> "55154f42065ea5a1bea05463826be2684eb92df92c100027aabaae57ca554207"
    [] what = "author_id" -> "bc7cbcb5636375fa1d82434d466724d92377f53b980695dd49d26d0ce12205a5"

DecOk(r) ==
  IF mode = "chaos" THEN r.res \in {"need", "frame", "err"} /\ tpos' = tpos /\ tk' = tk /\ dead' = (r.res = "err")
  ELSE LET S == DecodeStep(Lens2, tfed, tpos, tk)
           atBad == bad # 0 /\ tk + 1 = bad /\ tfed - tpos >= 4
       IN IF mode \in {"oversize", "shortlen"} /\ atBad
          THEN \* a length above the maximum, or a length that cuts the body short (a strict prefix of a postcard
               \* encoding never decodes: every byte of it is needed): an error, never a bogus message
               r.res = "err" /\ dead' = TRUE /\ tpos' = tpos /\ tk' = tk
          ELSE IF mode = "body" /\ atBad /\ S.res = "frame"
          THEN \* a corrupted body: an error, or some frame of the same length (never "need")
               /\ r.res \in {"err", "frame"} /\ dead' = (r.res = "err")
               /\ tpos' = IF r.res = "frame" THEN S.pos ELSE tpos
               /\ tk' = IF r.res = "frame" THEN S.k ELSE tk
          ELSE /\ r.res = S.res /\ dead' = FALSE
               \* decoded value = the value sent (values are not logged for streams with a corrupted frame)
               /\ (S.res = "frame" /\ mode \notin {"body", "shortlen"}) => r.p = frames[S.k].p
               /\ tpos' = S.pos /\ tk' = S.k

Step ==
  /\ l <= Len(Rec)
  /\ LET r == Rec[l] IN
     CASE r.ev = "Reset" ->
            /\ frames' = r.frames /\ mode' = r.mode /\ bad' = r.bad
            /\ tfed' = 0 /\ tpos' = 0 /\ tk' = 0 /\ dead' = FALSE
       [] r.ev = "Feed" -> /\ ~dead /\ tfed' = tfed + r.n /\ UNCHANGED <<frames, mode, bad, tpos, tk, dead>>
       [] r.ev = "Dec" -> /\ ~dead /\ DecOk(r) /\ UNCHANGED <<frames, mode, bad, tfed>>
       [] r.ev = "End" -> /\ (mode \in {"clean"} => r.buffered = tfed - tpos)
                          /\ UNCHANGED <<frames, mode, bad, tfed, tpos, tk, dead>>
       \* the stream ends: nothing left over is a clean end, a truncated frame is an error - never a frame, never a panic
       [] r.ev = "Eof" -> /\ ~dead
                          /\ r.res = IF tfed = tpos THEN "none" ELSE "err"
                          /\ UNCHANGED <<frames, mode, bad, tfed, tpos, tk, dead>>
       [] r.ev = "Fuzz" -> r.res \in {"value", "err"} /\ UNCHANGED <<frames, mode, bad, tfed, tpos, tk, dead>>
       [] r.ev = "RT" -> r.same /\ UNCHANGED <<frames, mode, bad, tfed, tpos, tk, dead>>
       [] r.ev = "Pinned" -> r.hex = PinnedHex(r.what) /\ UNCHANGED <<frames, mode, bad, tfed, tpos, tk, dead>>
       [] OTHER -> FALSE
  /\ l' = l + 1
TInit == l = 1 /\ frames = <<>> /\ mode = "" /\ bad = 0 /\ tfed = 0 /\ tpos = 0 /\ tk = 0 /\ dead = FALSE
TSpec == TInit /\ [][Step]_tvars
Accepted ==
  IF TLCGet("stats").diameter - 1 = Len(Rec) THEN TRUE
  ELSE /\ PrintT(<<"REJECTED_AT", TLCGet("stats").diameter, "OF", Len(Rec)>>)
       /\ PrintT(<<"EVENT", ToJson(Rec[TLCGet("stats").diameter])>>)
       /\ FALSE
=============================================================================
