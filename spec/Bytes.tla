------------------------------- MODULE Bytes -------------------------------
(* Byte strings as sequences over 0..255: prefix relation, lexicographic order,
   and the "prefix successor" used to turn a key prefix into a range bound
   (src/store/fs/bounds.rs).                                                 *)
EXTENDS Naturals, Sequences

KeyPrefix(p, k) == Len(p) <= Len(k) /\ \A i \in 1..Len(p) : p[i] = k[i]

LexLess(a, b) ==
  \E i \in 1..(Len(a) + 1) :
     /\ \A j \in 1..(i - 1) : j <= Len(b) /\ a[j] = b[j]
     /\ \/ (i = Len(a) + 1 /\ Len(b) >= i)
        \/ (i <= Len(a) /\ i <= Len(b) /\ a[i] < b[i])
LexLeq(a, b) == a = b \/ LexLess(a, b)

NoSucc == <<256>>      \* sentinel: not a byte string

\* Smallest byte string greater than every string that has prefix p
\* (drop trailing 255s, increment the last remaining byte); NoSucc if none.
RECURSIVE PrefixSucc(_)
PrefixSucc(p) ==
  IF p = <<>> THEN NoSucc
  ELSE IF p[Len(p)] = 255 THEN PrefixSucc(SubSeq(p, 1, Len(p) - 1))
  ELSE [p EXCEPT ![Len(p)] = @ + 1]

\* increment_by_one of bounds.rs: fixed-length increment with carry; NoSucc if all 255.
\* Correct for fixed-width ids, WRONG as a prefix bound for variable-length keys.
RECURSIVE IncByOne(_)
IncByOne(p) ==
  IF p = <<>> THEN NoSucc
  ELSE IF p[Len(p)] = 255
       THEN LET q == IncByOne(SubSeq(p, 1, Len(p) - 1))
            IN IF q = NoSucc THEN NoSucc ELSE Append(q, 0)
       ELSE [p EXCEPT ![Len(p)] = @ + 1]

\* The set of keys selected by a range scan [p, bound(p)) as the store performs it.
InBoundRange(p, k, carry) ==
  LET ub == IF carry THEN PrefixSucc(p) ELSE IncByOne(p)
  IN LexLeq(p, k) /\ (ub = NoSucc \/ LexLess(k, ub))

\* Lemma (checked by TLC over a small key universe in MCBytes): with the prefix
\* successor a range scan selects exactly the keys with that prefix.
PrefixRangeLemma(Keys) == \A p \in Keys, k \in Keys : InBoundRange(p, k, TRUE) <=> KeyPrefix(p, k)
LexTotal(Keys) == \A a \in Keys, b \in Keys : (a = b) \/ LexLess(a, b) \/ LexLess(b, a)
LexAsym(Keys) == \A a \in Keys, b \in Keys : ~(LexLess(a, b) /\ LexLess(b, a))
=============================================================================
