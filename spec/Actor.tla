------------------------------- MODULE Actor -------------------------------
(* Model of the store actor: the programs of several clients are interleaved into
   one FIFO queue which the actor serves in order with ActorCore!ActorStep (C14). *)
EXTENDS ActorCore

\* ---------------------------------------------------------------- model
CONSTANTS Docs, Programs, EntryU   \* Programs: set of request sequences a client may run
VARIABLES ast, pc, queue, replies, acked
vars == <<ast, pc, queue, replies, acked>>
Clients == 1..2

Init0 == [docs |-> [d \in Docs |-> [cap |-> "write", recs |-> {}, peers |-> <<>>, pol |-> DefaultPolicy]], open |-> <<>>, authors |-> {1}]
Init == /\ ast = Init0
        /\ pc \in [Clients -> Programs]       \* remaining program of each client
        /\ queue = <<>> /\ replies = <<>> /\ acked = [d \in Docs |-> {}]

Enqueue(c) == /\ pc[c] # <<>>
              /\ queue' = Append(queue, Head(pc[c]))
              /\ pc' = [pc EXCEPT ![c] = Tail(@)]
              /\ UNCHANGED <<ast, replies, acked>>
Serve == /\ queue # <<>>
         /\ LET q == Head(queue)  r == ActorStep(ast, q) IN
            /\ ast' = r.st
            /\ replies' = Append(replies, [q |-> q, res |-> r.res, val |-> r.val,
                                           wasOpen |-> IsOpen(ast, q.d),
                                           wasSync |-> IsOpen(ast, q.d) /\ ast.open[q.d].sync,
                                           afterSync |-> IsOpen(r.st, q.d) /\ r.st.open[q.d].sync,
                                           before |-> ast.docs[q.d].recs, after |-> r.st.docs[q.d].recs])
            /\ acked' = IF r.res = "ok" /\ q.op \in {"InsertLocal", "DeletePrefix", "InsertRemote"}
                        THEN [acked EXCEPT ![q.d] = @ \cup {q.e}] ELSE acked
         /\ queue' = Tail(queue) /\ UNCHANGED pc
Next == (\E c \in Clients : Enqueue(c)) \/ Serve
Spec == Init /\ [][Next]_vars

Gated == {"InsertLocal", "DeletePrefix", "InsertRemote", "SyncInit", "GetMany", "GetExact", "Subscribe", "GetState", "SetSync"}
NeedSync == {"InsertRemote", "SyncInit"}
\* C14 obligations on every reply
ReplyOk(r) ==
  /\ (r.q.op \in Gated /\ ~r.wasOpen) => (r.res # "ok" /\ r.after = r.before)
  /\ (r.q.op \in NeedSync /\ ~r.wasSync) => (r.res # "ok" /\ r.after = r.before)
  /\ (r.q.op \in {"GetMany", "InsertLocal"} /\ r.wasOpen /\ r.res = "NotOpen") => FALSE
  /\ (r.q.op = "Open" /\ r.wasSync) => r.afterSync          \* enabling sync is sticky across additional opens
AllRepliesOk == \A i \in 1..Len(replies) : ReplyOk(replies[i])
HandlesPositive == \A d \in DOMAIN ast.open : ast.open[d].handles >= 1
\* shutdown hands back a store containing every acknowledged write (unless the document was dropped)
AckedHeld == \A d \in Docs : ast.docs[d].cap # "none" => ast.docs[d].recs = Kept(acked[d]) \/ \E i \in 1..Len(replies) : replies[i].q.op = "Drop" /\ replies[i].q.d = d
\* usable exactly while a handle is held: handle count equals opens minus effective closes
HandleCount(d) ==
  LET RS == [i \in 1..Len(replies) |-> replies[i]]
      opens == Cardinality({i \in 1..Len(RS) : RS[i].q.d = d /\ RS[i].q.op = "Open" /\ RS[i].res = "ok"})
      closes == Cardinality({i \in 1..Len(RS) : RS[i].q.d = d /\ RS[i].q.op \in {"Close", "Drop"} /\ RS[i].wasOpen})
  IN opens - closes
\* the download policy through the actor (C15 / C16 at the level of the design): a read needs no open document and returns
\* what the last acknowledged set put there since the document was last dropped, the default otherwise; a set is
\* acknowledged exactly for a document that exists
PolicyLaw ==
  \A i \in 1..Len(replies) :
     LET r == replies[i]
         J == {j \in 1..(i - 1) : replies[j].q.d = r.q.d /\ replies[j].res = "ok" /\ replies[j].q.op \in {"SetPolicy", "Drop"}}
         m == CHOOSE x \in J : \A j \in J : j <= x
     IN r.q.op = "GetPolicy" =>
          /\ r.res = "ok"
          /\ r.val[1] = (IF J = {} \/ replies[m].q.op = "Drop" THEN DefaultPolicy ELSE replies[m].q.pol)
CountsMatch == \A d \in Docs : (IF d \in DOMAIN ast.open THEN ast.open[d].handles ELSE 0) = HandleCount(d)
=============================================================================
