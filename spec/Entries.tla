------------------------------ MODULE Entries ------------------------------
(* The replicated-data algebra of a replica (src/ranger.rs Store::put,
   src/store/fs.rs prefixes_of / remove_prefix_filtered / entry_put).

   An entry is a record [a, k, ts, h, len]:
     a   author rank (byte order of the 32-byte author ids used in the run, >= 1)
     k   key, a byte string
     ts  timestamp
     h   content-hash rank; 0 is Hash::EMPTY, negative ranks sort below it,
         positive ranks above it (byte order of the real hashes)
     len content length
   The value order of the code (Record: Ord) is (ts, h) lexicographic.

   Deviation constants name mechanisms that an implementation can get wrong.
   The design configuration has all of them TRUE.                              *)
EXTENDS Bytes, Naturals, Integers, Sequences, FiniteSets

CONSTANTS ParentsSeeMarkers,  \* admission test consults deletion markers
          EmptyKeyIsParent,   \* admission test consults the entry at the empty key
                              \* (and, for an entry at the empty key, the entry itself)
          PrefixBoundCarry    \* prefix range bound is the prefix successor

IsMarker(e) == e.h = 0
WellFormed(e) == (e.h = 0) = (e.len = 0)

ValLess(e, f) == e.ts < f.ts \/ (e.ts = f.ts /\ e.h < f.h)
ValLeq(e, f) == ~ValLess(f, e)
SameId(e, f) == e.a = f.a /\ e.k = f.k

\* ---------- reference semantics (what the property states) ----------
Dominated(e, S) == \E f \in S : f # e /\ f.a = e.a /\ KeyPrefix(f.k, e.k) /\ ValLeq(e, f)
Kept(S) == {e \in S : ~Dominated(e, S)}

\* ---------- the code's mechanism ----------
\* prefixes_of: the entries consulted by the admission test
Parents(S, e) ==
  {f \in S : /\ f.a = e.a
             /\ KeyPrefix(f.k, e.k)
             /\ (ParentsSeeMarkers \/ ~IsMarker(f))
             /\ (EmptyKeyIsParent \/ f.k # <<>>)}
PutOk(S, e) == \A f \in Parents(S, e) : ValLess(f, e)
\* remove_prefix_filtered(e.key, |v| e.value >= v)
Pruned(S, e) ==
  {f \in S : f.a = e.a /\ InBoundRange(e.k, f.k, PrefixBoundCarry) /\ ValLeq(f, e)}
\* entry_put overwrites the row with the same (author, key)
PutStore(S, e) == ((S \ Pruned(S, e)) \ {f \in S : SameId(f, e)}) \cup {e}
Put(S, e) == IF PutOk(S, e) THEN PutStore(S, e) ELSE S
RemovedCount(S, e) == Cardinality(Pruned(S, e))

\* what the property demands of one insertion, stated without the mechanism
SpecPruned(S, e) == {f \in S : f.a = e.a /\ KeyPrefix(e.k, f.k) /\ ValLeq(f, e)}
SpecPutOk(S, e) == ~\E f \in S : f.a = e.a /\ KeyPrefix(f.k, e.k) /\ ValLeq(e, f)

RECURSIVE PutAll(_, _, _)
PutAll(S, vals, i) == IF i > Len(vals) THEN S ELSE PutAll(Put(S, vals[i]), vals, i + 1)

\* ---------- heads ----------
Authors(S) == {e.a : e \in S}
MaxTs(S, a) == CHOOSE t \in {e.ts : e \in {f \in S : f.a = a}} :
                  \A e \in S : e.a = a => e.ts <= t
HeadsOf(S) == [a \in Authors(S) |-> MaxTs(S, a)]
\* number of authors for which `theirs` has news relative to `ours`
NewsCount(theirs, ours) ==
  Cardinality({a \in DOMAIN theirs : a \notin DOMAIN ours \/ theirs[a] > ours[a]})
=============================================================================
