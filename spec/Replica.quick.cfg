SPECIFICATION Spec
CONSTANTS
 Universe <- U_quick
 MaxOffered = 3
 ParentsSeeMarkers = TRUE
 EmptyKeyIsParent = TRUE
 PrefixBoundCarry = TRUE
 HeadMonotone = TRUE
 RemoveClearsHeads = TRUE
INVARIANTS StoreIsKeptOfOffered Normalized HeadsExact
PROPERTIES StepOk
CHECK_DEADLOCK FALSE
