---------------------------- MODULE StoreTxTrace ----------------------------
(* Trace validation of crash images of the real persistent store (harness
   `vdrive storetx`).  `live[j]` is the state the live store showed after call j
   (baseline run); an image taken after call i must open, must equal live[m] for
   some m between the last point known to be durable and i, and its derived
   tables must agree with its records (C06).                                   *)
EXTENDS Query, Json, IOUtils

\* "C06" / "C16": the image is a state between two complete calls and its derived tables agree with its records;
\* "C13": only that the per-author heads of the image are the greatest timestamps of the records of the image
CONSTANT Prop

Rec == ndJsonDeserialize(IOEnv.TRACE)
VARIABLES l, live, age, kinds
vars == <<l, live, age, kinds>>

HeadsFn(hs) == [a \in {hs[i].a : i \in 1..Len(hs)} |-> hs[CHOOSE i \in 1..Len(hs) : hs[i].a = a].ts]
Consistent(dd) ==
  /\ \A i, j \in 1..Len(dd.heads) : dd.heads[i].a = dd.heads[j].a => i = j
  /\ HeadsFn(dd.heads) = HeadsOf(ToSet(dd.st))
  /\ dd.bykey = SetToSortSeq(ToSet(dd.st), KALess)
  /\ dd.st = SetToSortSeq(ToSet(dd.st), AKLess)

\* calls after which everything so far is durable
Commits(kind) == kind \in {"Flush", "GetMany", "Reopen", "DropDerived"}

\* the latest call boundary known to be durable when call i has returned: a committing call, or the forced
\* age-based commit, which happens before an access of call age[1] and therefore covers at least age[1]-1
SetMax(S) == CHOOSE x \in S : \A y \in S : y <= x
DurableAt(i) == SetMax({0} \cup {j \in 1..i : Commits(kinds[j])}
                       \cup (IF age[1] >= 1 /\ age[1] <= i THEN {age[1] - 1} ELSE {}))
HeadsConsistent(dd) ==
  /\ \A i, j \in 1..Len(dd.heads) : dd.heads[i].a = dd.heads[j].a => i = j
  /\ HeadsFn(dd.heads) = HeadsOf(ToSet(dd.st))
ImgOk(r) ==
  IF Prop = "C13" THEN r.opened => \A o \in 1..Len(r.docs) : HeadsConsistent(r.docs[o])
  ELSE
  /\ r.opened
  /\ \E m \in DurableAt(r.i)..r.i : r.docs = live[m + 1].docs /\ r.hashes = live[m + 1].hashes
  /\ \A o \in 1..Len(r.docs) : Consistent(r.docs[o])

Init == l = 1 /\ live = <<>> /\ age = <<0, 0>> /\ kinds = <<>>
Step ==
  /\ l <= Len(Rec)
  /\ LET r == Rec[l] IN
       CASE r.ev = "Reset" -> live' = r.live /\ age' = r.age /\ kinds' = r.kinds
         [] r.ev = "Img" -> ImgOk(r) /\ UNCHANGED <<live, age, kinds>>
         [] OTHER -> FALSE
  /\ l' = l + 1
Spec == Init /\ [][Step]_vars
Accepted ==
  IF TLCGet("stats").diameter - 1 = Len(Rec) THEN TRUE
  ELSE /\ PrintT(<<"REJECTED_AT", TLCGet("stats").diameter, "OF", Len(Rec)>>)
       /\ PrintT(<<"EVENT", ToJson(Rec[TLCGet("stats").diameter])>>)
       /\ FALSE
=============================================================================
