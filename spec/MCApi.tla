---- MODULE MCApi ----
EXTENDS Api
E(a, k, t, h) == [a |-> a, k |-> k, ts |-> t, h |-> h, len |-> IF h = 0 THEN 0 ELSE 1]
UApi == {E(1, <<0>>, 1, 1), E(2, <<0>>, 2, 1)}
====
