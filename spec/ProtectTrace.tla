---------------------------- MODULE ProtectTrace ----------------------------
(* The garbage-collection protection handshake (src/engine.rs
   ProtectCallbackHandler / ProtectCallbackSender::into_cb and the engine's
   gc_protect_task): the blob store's collector calls the callback with an empty
   set; the callback asks the docs engine for the content hashes of all
   documents.  C16: the set reported for protection is exactly the set of
   hashes of the entries held, and a run that could not obtain the complete set
   must be aborted (never continued with a partial set).                        *)
EXTENDS Naturals, Sequences, FiniteSets, SequencesExt, Json, IOUtils, TLC

Rec == ndJsonDeserialize(IOEnv.TRACE)
VARIABLE l
vars == <<l>>

GcOk(r) ==
  IF r.down
  THEN \* the engine is gone: the hashes cannot be enumerated, the collector must not go on
       r.outcome = "Abort"
  ELSE r.outcome = "Continue" /\ ToSet(r.live) = ToSet(r.held)

Init == l = 1
Step == /\ l <= Len(Rec)
        /\ LET r == Rec[l] IN
             CASE r.ev = "Reset" -> TRUE
               [] r.ev = "Gc" -> GcOk(r)
               [] OTHER -> FALSE
        /\ l' = l + 1
Spec == Init /\ [][Step]_vars
Accepted ==
  IF TLCGet("stats").diameter - 1 = Len(Rec) THEN TRUE
  ELSE /\ PrintT(<<"REJECTED_AT", TLCGet("stats").diameter, "OF", Len(Rec)>>)
       /\ PrintT(<<"EVENT", ToJson(Rec[TLCGet("stats").diameter])>>)
       /\ FALSE
=============================================================================
