-------------------------- MODULE SyncSessionTrace --------------------------
(* Trace validation of real run_alice / BobState sessions against scripted peers
   and of real initiator-vs-acceptor pairs with injected faults (harness
   `vdrive syncsession`).                                                      *)
EXTENDS SyncSessionCore, Json, IOUtils

Rec == ndJsonDeserialize(IOEnv.TRACE)
VARIABLE l
tvars == <<l>>

\* fold the recorded steps through the acceptor machine; every reaction must be allowed
RECURSIVE BobRun(_, _, _, _, _)
BobRun(st, steps, i, accept, nsLogged) ==
  IF i > Len(steps) THEN [ok |-> TRUE, st |-> st, last |-> "none"]
  ELSE LET s == steps[i]
           \* a peer that is gone (both directions of its stream dropped) right after a frame that asks for a reply: the reply
           \* cannot be delivered, which is a reported error (the outcome still names the document of an allowed request)
           goneExtra == IF "gone" \in DOMAIN s /\ s.gone
                        THEN IF s.frame \in Inits /\ accept = "Allow" THEN {<<"err", [st EXCEPT !.ns = TRUE]>>}
                             ELSE {<<"err", st>>}      \* (an undeliverable decline names no document)
                        ELSE {}
           allowed == BobReact(st, s.frame, s.cond, accept) \cup goneExtra
           hit == {r \in allowed : r[1] = s.reaction}
       IN IF hit = {} THEN [ok |-> FALSE, st |-> st, last |-> s.reaction]
          ELSE IF s.reaction \in Terminal
          THEN \* the final state must agree with what the code reports about the document and its progress
               LET fin == {r \in hit : r[2].ns = nsLogged /\ r[2].prog = "some"} IN
               IF fin = {} THEN [ok |-> FALSE, st |-> st, last |-> s.reaction]
               ELSE [ok |-> i = Len(steps), st |-> (CHOOSE x \in fin : TRUE)[2], last |-> s.reaction]
          ELSE BobRun((CHOOSE x \in hit : TRUE)[2], steps, i + 1, accept, nsLogged)

BobOk(r) ==
  LET acc == IF r.accept = "Allow" THEN "Allow" ELSE "Reject"
      R == BobRun(BobInit, r.steps, 1, acc, r.ns) IN
  /\ ~r.hang
  /\ R.ok /\ R.last = r.res          \* the session ended, with the result the machine prescribes
  /\ r.outcome = "ok"                 \* into_outcome() did not panic
  \* (R.ok includes: the outcome names the document exactly when a request for it was allowed)
  /\ r.alive                          \* the store actor survived whatever the peer sent
  /\ (acc = "Reject" => ~r.changed)   \* a declined request changes nothing in the store
  \* on success the counts mirror: what the acceptor says it sent is what this peer received in reply frames (a peer
  \* that was gone before the reply received nothing)
  /\ (r.res = "ok" /\ r.sent >= 0) => r.sent = r.got

RECURSIVE AliceRun(_, _)
AliceRun(steps, i) ==
  IF i > Len(steps) THEN [ok |-> TRUE, last |-> "none"]
  ELSE LET s == steps[i]
           allowed == IF s.frame = "Start" THEN AliceStart(s.cond) ELSE AliceReact(s.frame, s.cond)
       IN IF s.reaction \notin allowed THEN [ok |-> FALSE, last |-> s.reaction]
          ELSE IF s.reaction \in Terminal THEN [ok |-> i = Len(steps), last |-> s.reaction]
          ELSE AliceRun(steps, i + 1)
AliceOk(r) == LET R == AliceRun(r.steps, 1) IN ~r.hang /\ R.ok /\ R.last = r.res /\ r.alive

PairOk(r) ==
  /\ ~r.hang
  /\ r.resA \in Terminal /\ r.resB \in Terminal
  /\ r.outcomeB = "ok"
  \* counts mirror when both succeed (a proxy that ends the streams early is an adversarial peer: a clean
  \* end-of-stream between frames is indistinguishable from regular termination)
  /\ (r.resA = "ok" /\ r.resB = "ok" /\ r.what \notin {"cut", "halfcut"}) => (r.sentA = r.recvB /\ r.sentB = r.recvA)
  /\ r.accept # "Allow" => /\ ~r.changedB
                           /\ r.resB \in {"abort", "err"}
                           /\ r.what = "" => (r.resB = "abort" /\ r.resA \in {"abort", "err"})

\* the public connect_and_sync against the public handle_connection over real local endpoints: the shapes of both
\* results are what the live actor consumes (abort reason, namespace and peer of the error), see LiveSync.tla
NetOk(r) ==
  /\ ~r.hang /\ r.resA # "HANG" /\ r.resB \notin {"HANG", "PANIC"}
  /\ IF r.fault_a # ""
     THEN \* the initiator cannot start: it reports an error, the acceptor sees a stream without request
          /\ r.resA \in {"Sync", "Close", "Connect"}
          /\ r.resB \in {"Sync", "Open", "Close", "Connect", "noconn"} /\ ~r.changedB
     ELSE IF r.accept # "Allow"
     THEN LET reason == IF r.accept = "RejectNotFound" THEN "NotFound" ELSE "AlreadySyncing" IN
          /\ r.resA = "RemoteAbort" /\ r.reasonA = reason
          /\ r.resB = "Abort" /\ r.reasonB = reason /\ r.infoB.ns /\ r.infoB.peer
          /\ ~r.changedB
     ELSE IF r.fault_b # ""
     THEN \* an allowed request that fails locally is reported with the document and the peer it was about
          \* (which error variant carries them is not the property's business)
          /\ r.resB \in {"Sync", "Close", "Open", "Abort"} /\ r.infoB.nsknown /\ r.infoB.ns /\ r.infoB.peer
          /\ r.resA \in {"ok", "Sync", "Close", "RemoteAbort"}     \* success with nothing exchanged, or a reported error
     ELSE /\ r.resA = "ok" /\ r.resB = "ok"
          /\ r.okA.ns /\ r.okA.peer /\ r.infoB.ns /\ r.infoB.peer
          /\ r.okA.sent = r.infoB.recv /\ r.okA.recv = r.infoB.sent

Step ==
  /\ l <= Len(Rec)
  /\ LET r == Rec[l] IN
       CASE r.ev = "Reset" -> TRUE
         [] r.ev = "Bob" -> BobOk(r)
         [] r.ev = "Alice" -> AliceOk(r)
         [] r.ev = "Pair" -> PairOk(r)
         [] r.ev = "Net" -> NetOk(r)
         [] OTHER -> FALSE
  /\ l' = l + 1
TInit == l = 1
TSpec == TInit /\ [][Step]_tvars
Accepted ==
  IF TLCGet("stats").diameter - 1 = Len(Rec) THEN TRUE
  ELSE /\ PrintT(<<"REJECTED_AT", TLCGet("stats").diameter, "OF", Len(Rec)>>)
       /\ PrintT(<<"EVENT", ToJson(Rec[TLCGet("stats").diameter])>>)
       /\ FALSE
=============================================================================
