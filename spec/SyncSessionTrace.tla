-------------------------- MODULE SyncSessionTrace --------------------------
(* Trace validation of real run_alice / BobState sessions against scripted peers
   and of real initiator-vs-acceptor pairs with injected faults (harness
   `vdrive syncsession`).                                                      *)
EXTENDS SyncSessionCore, Json, IOUtils

Rec == ndJsonDeserialize(IOEnv.TRACE)
VARIABLE l
tvars == <<l>>

\* fold the recorded steps through the acceptor machine; every reaction must be allowed
RECURSIVE BobRun(_, _, _, _)
BobRun(st, steps, i, accept) ==
  IF i > Len(steps) THEN [ok |-> TRUE, st |-> st, last |-> "none"]
  ELSE LET s == steps[i]
           allowed == BobReact(st, s.frame, s.cond, accept)
           hit == {r \in allowed : r[1] = s.reaction}
       IN IF hit = {} THEN [ok |-> FALSE, st |-> st, last |-> s.reaction]
          ELSE LET r == CHOOSE x \in hit : TRUE IN
               IF r[1] \in Terminal
               THEN [ok |-> i = Len(steps), st |-> r[2], last |-> r[1]]
               ELSE BobRun(r[2], steps, i + 1, accept)

BobOk(r) ==
  LET acc == IF r.accept = "Allow" THEN "Allow" ELSE "Reject"
      R == BobRun(BobInit, r.steps, 1, acc) IN
  /\ ~r.hang
  /\ R.ok /\ R.last = r.res          \* the session ended, with the result the machine prescribes
  /\ r.outcome = "ok"                 \* into_outcome() did not panic
  /\ r.ns = R.st.ns                   \* the outcome names the document once a request for it was allowed
  /\ (acc = "Reject" => ~r.changed)   \* a declined request changes nothing in the store

RECURSIVE AliceRun(_, _)
AliceRun(steps, i) ==
  IF i > Len(steps) THEN [ok |-> TRUE, last |-> "none"]
  ELSE LET s == steps[i]
           allowed == IF s.frame = "Start" THEN AliceStart(s.cond) ELSE AliceReact(s.frame, s.cond)
       IN IF s.reaction \notin allowed THEN [ok |-> FALSE, last |-> s.reaction]
          ELSE IF s.reaction \in Terminal THEN [ok |-> i = Len(steps), last |-> s.reaction]
          ELSE AliceRun(steps, i + 1)
AliceOk(r) == LET R == AliceRun(r.steps, 1) IN ~r.hang /\ R.ok /\ R.last = r.res

PairOk(r) ==
  /\ ~r.hang
  /\ r.resA \in Terminal /\ r.resB \in Terminal
  /\ r.outcomeB = "ok"
  \* counts mirror when both succeed (a proxy that ends the streams early is an adversarial peer: a clean
  \* end-of-stream between frames is indistinguishable from regular termination)
  /\ (r.resA = "ok" /\ r.resB = "ok" /\ r.what \notin {"cut", "halfcut"}) => (r.sentA = r.recvB /\ r.sentB = r.recvA)
  /\ (r.resA = "ok" /\ r.resB = "ok" /\ r.what = "") => r.same
  /\ r.accept # "Allow" => /\ ~r.changedB
                           /\ r.resB \in {"abort", "err"}
                           /\ r.what = "" => (r.resB = "abort" /\ r.resA = "abort")

Step ==
  /\ l <= Len(Rec)
  /\ LET r == Rec[l] IN
       CASE r.ev = "Reset" -> TRUE
         [] r.ev = "Bob" -> BobOk(r)
         [] r.ev = "Alice" -> AliceOk(r)
         [] r.ev = "Pair" -> PairOk(r)
         [] OTHER -> FALSE
  /\ l' = l + 1
TInit == l = 1
TSpec == TInit /\ [][Step]_tvars
Accepted ==
  IF TLCGet("stats").diameter - 1 = Len(Rec) THEN TRUE
  ELSE /\ PrintT(<<"REJECTED_AT", TLCGet("stats").diameter, "OF", Len(Rec)>>)
       /\ PrintT(<<"EVENT", ToJson(Rec[TLCGet("stats").diameter])>>)
       /\ FALSE
=============================================================================
