---------------------------- MODULE LiveNodeTrace ----------------------------
(* Node-local validation of the sync-slot coordination (C11's subject) on traces
   recorded from COMPLETE nodes talking over the real local network (extension
   X05; hook H10 in src/engine/state.rs): every call of start_connect,
   accept_request, finish, connect_declined, insert and remove is logged on entry
   (arguments, slot and resync flag of the (document, peer) pair as they are) and
   again with its return value and the slot after it - for finish and
   connect_declined at the place in live.rs that consumes the value.  One run = one per-document
   state of one live actor (from its insertion into the sync set to its removal);
   the owner of that state is the live actor task, so the per-process sequence
   number is the order of the calls - no clock, no merging of logs across nodes.

   Checked per call: the local rules of LiveSync.tla (Dial / AcceptDecision /
   Finish / the AlreadySyncing branch of HandleConnectDone) as a transition relation
   on the real slot; that nothing but these calls changes a slot (the entry view of
   every call equals the state the previous call left); that a resync handed out by
   finish / connect_declined is followed at once by exactly one start_connect(Resync)
   which starts; that a node's answer to a crossing dial of one peer is always the
   same (the tie-break is a function of the pair); and, for documents that are not
   in the sync set, decline as NotFound and no state.                             *)
EXTENDS Naturals, Sequences, FiniteSets, TLC, Json, IOUtils

CONSTANT KeepResyncOnAccept    \* an accept that takes over the slot of our own dial keeps the resync flag (D10 when FALSE)

Rec == ndJsonDeserialize(IOEnv.TRACE)
VARIABLES l,
          syn,     \* the run's document is in the sync set
          sl,      \* peer -> <<slot, resync>>   (slot 0 Idle, 1 Running(Connect), 2 Running(Accept))
          owe,     \* peer that must be dialled next with reason Resync (0 = none)
          dir      \* peer -> what this node answered to a crossing dial of that peer so far
vars == <<l, syn, sl, owe, dir>>

Cur(p) == IF p \in DOMAIN sl THEN sl[p] ELSE <<0, FALSE>>
Set(f, p, v) == [q \in DOMAIN f \cup {p} |-> IF q = p THEN v ELSE f[q]]

\* what the call must return and leave behind, given the slot it found
Expect(r, c) ==
  CASE r.fn = "start_connect" ->
         IF c[1] = 0 THEN [exits |-> TRUE, ret |-> "true", post |-> <<1, FALSE>>, owe |-> 0]
         ELSE [exits |-> TRUE, ret |-> "false", post |-> <<c[1], c[2] \/ r.reason = "SyncReport">>, owe |-> 0]
    [] r.fn = "finish" ->
         IF c[1] # 0 THEN [exits |-> TRUE, ret |-> IF c[2] THEN "started+resync" ELSE "started", post |-> <<0, c[2]>>,
                           owe |-> IF c[2] THEN r.p ELSE 0]
         ELSE [exits |-> FALSE, ret |-> "", post |-> <<0, c[2]>>, owe |-> 0]      \* finish on an idle slot: None, nothing follows
    [] r.fn = "connect_declined" ->
         IF c[1] = 1 THEN [exits |-> TRUE, ret |-> IF c[2] THEN "true" ELSE "false", post |-> <<0, FALSE>>,
                           owe |-> IF c[2] THEN r.p ELSE 0]
         ELSE [exits |-> FALSE, ret |-> "", post |-> c, owe |-> 0]
    [] OTHER -> [exits |-> FALSE, ret |-> "", post |-> c, owe |-> 0]

\* accept_request: the answer to a crossing dial (slot = our own dial) is either, but always the same for one peer
AcceptOk(r, c) ==
  LET allow == r.ret = "Allow" IN
  /\ r.exited
  /\ r.ret \in {"Allow", "AlreadySyncing"}
  /\ CASE c[1] = 0 -> allow
       [] c[1] = 2 -> ~allow
       [] OTHER    -> r.p \in DOMAIN dir => dir[r.p] = r.ret
  /\ r.post = IF allow THEN <<2, KeepResyncOnAccept /\ c[1] = 1 /\ c[2]>> ELSE c
  /\ sl' = Set(sl, r.p, r.post)
  /\ dir' = IF c[1] = 1 THEN Set(dir, r.p, r.ret) ELSE dir
  /\ owe' = 0

CallSyncing(r) ==
  LET c == Cur(r.p) IN
  /\ r.inst # 0
  /\ r.known = (r.p \in DOMAIN sl)           \* a slot exists exactly for the peers met before
  /\ r.known => r.pre = c                     \* nothing else touched the slot since the previous call
  /\ owe # 0 => r.fn = "start_connect" /\ r.p = owe /\ r.reason = "Resync" /\ c[1] = 0
  /\ IF r.fn = "accept_request" THEN AcceptOk(r, c)
     ELSE LET e == Expect(r, c) IN
          /\ r.exited = e.exits
          /\ r.exited => r.ret = e.ret /\ r.post = e.post
          /\ sl' = Set(sl, r.p, e.post)
          /\ owe' = e.owe
          /\ dir' = dir
  /\ syn' = syn

\* a document that is not in the sync set: no dial, NotFound, no finish, no state
CallNotSyncing(r) ==
  /\ r.inst = 0 /\ ~r.known
  /\ CASE r.fn = "start_connect" -> r.exited /\ r.ret = "false"
       [] r.fn = "accept_request" -> r.exited /\ r.ret = "NotFound"
       [] OTHER -> ~r.exited
  /\ UNCHANGED <<syn, sl, owe, dir>>

Step ==
  /\ l <= Len(Rec)
  /\ LET r == Rec[l] IN
       CASE r.ev = "Reset" -> syn' = FALSE /\ sl' = <<>> /\ owe' = 0 /\ dir' = <<>>
         [] r.ev = "Insert" -> /\ owe = 0
                               /\ r.fresh = ~syn                      \* a new per-document state exactly when not syncing
                               /\ syn' = TRUE /\ UNCHANGED <<sl, owe, dir>>
         [] r.ev = "Remove" -> /\ owe = 0 /\ (syn <=> r.inst # 0)
                               /\ syn' = FALSE /\ sl' = <<>> /\ dir' = <<>> /\ owe' = 0
         [] r.ev = "Call" -> IF syn THEN CallSyncing(r) ELSE CallNotSyncing(r)
         [] OTHER -> FALSE
  /\ l' = l + 1

Init == l = 1 /\ syn = FALSE /\ sl = <<>> /\ owe = 0 /\ dir = <<>>
Spec == Init /\ [][Step]_vars

\* evaluated in every state of the validated trace
SlotsOk == \A p \in DOMAIN sl : sl[p][1] \in 0..2
\* a set resync flag on an idle slot only between finish and the follow-up dial it owes
NoResyncLost == \A p \in DOMAIN sl : (sl[p][1] = 0 /\ sl[p][2]) => owe = p

Accepted ==
  IF TLCGet("stats").diameter - 1 = Len(Rec) THEN TRUE
  ELSE /\ PrintT(<<"REJECTED_AT", TLCGet("stats").diameter, "OF", Len(Rec)>>)
       /\ PrintT(<<"EVENT", ToJson(Rec[TLCGet("stats").diameter])>>)
       /\ FALSE
=============================================================================
