---------------------------- MODULE AcceptModel ----------------------------
(* C03 over the reconciliation path: for every small store and every message
   made of item parts whose values carry arbitrary validity flags, processing
   stores / announces only acceptable entries and treats the remaining values
   exactly as if the unacceptable ones were absent.                           *)
EXTENDS Ranger

CONSTANTS Contents,   \* entries (content only)
          MaxVals     \* values per message
Now == 10
Vals == {[e |-> c, cs |-> 2, nsok |-> n, sigok |-> s] : c \in Contents, n \in BOOLEAN, s \in BOOLEAN}
Good(v) == Acceptable(v, Now, TRUE)
Filter(msg) == [i \in 1..Len(msg) |-> [msg[i] EXCEPT !.vals = SelectSeq(@, Good)]]
Proc(S, m) == Process(S, m, <<2, 1>>, Now, SetFpEq, SetFpEmpty)
Part(vs, hl) == [t |-> "item", x |-> DefaultId, y |-> DefaultId, fp |-> {}, vals |-> vs, hl |-> hl]

VARIABLES S, msg
Init == /\ \E X \in SUBSET {c \in Contents : WellFormed(c) /\ c.ts <= Now} : Cardinality(X) <= 2 /\ S = Kept(X)
        /\ \E n \in 1..MaxVals : \E f \in [1..n -> Vals] : \E cut \in 0..n, hl \in BOOLEAN :
              msg = IF cut = 0 \/ cut = n THEN << Part(f, hl) >>
                    ELSE << Part(SubSeq(f, 1, cut), hl), Part(SubSeq(f, cut + 1, n), TRUE) >>
Next == UNCHANGED <<S, msg>>

OnlyAcceptableStored ==
  LET R == Proc(S, msg) IN
  /\ \A e \in R.S \ S : \E i \in 1..Len(msg) : \E j \in 1..Len(msg[i].vals) : msg[i].vals[j].e = e /\ Good(msg[i].vals[j])
  /\ \A i \in 1..Len(R.ins) : Good(R.ins[i])
AsIfAbsent ==
  LET R == Proc(S, msg)  Q == Proc(S, Filter(msg)) IN R.S = Q.S /\ R.ins = Q.ins
RejectedChangesNothing ==
  (\A i \in 1..Len(msg) : \A j \in 1..Len(msg[i].vals) : ~Good(msg[i].vals[j])) => Proc(S, msg).S = S
=============================================================================
