---- MODULE MCAccept ----
EXTENDS AcceptModel
C(k, t, h, l) == [a |-> 1, k |-> k, ts |-> t, h |-> h, len |-> l]
\* well-formed records and markers, both malformed combinations, one entry beyond the future bound
CQuick == {C(<<>>, 1, 0, 0), C(<<0>>, 2, 1, 1), C(<<0>>, 1, 1, 0), C(<<0>>, 3, 0, 1), C(<<0>>, 600000011, 1, 1), C(<<0>>, 600000010, 1, 1)}
CThorough == CQuick \cup {C(<<>>, 2, 1, 1), C(<<0>>, 1, 0, 0), C(<<0, 255>>, 1, 1, 1)}
====
