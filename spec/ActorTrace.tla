----------------------------- MODULE ActorTrace -----------------------------
(* Trace validation of pipelined request batches served by the real store actor
   (harness `vdrive actor`).  Requests appear in send order (one FIFO channel);
   each reply must be what Actor!ActorStep prescribes for the state reached by
   all earlier requests; the store handed back by shutdown must hold exactly the
   specified contents (C14).                                                   *)
EXTENDS ActorCore, Json, IOUtils

CONSTANT Prop   \* "C14": every reply; "C07": only what depends on the capability (write attempts, capability kinds)

Rec == ndJsonDeserialize(IOEnv.TRACE)
VARIABLES l, st
vars == <<l, st>>

StartWith(caps) == [docs |-> [d \in 1..Len(caps) |-> [cap |-> caps[d], recs |-> {}]], open |-> <<>>, authors |-> {1, 2}]
Start == StartWith(<<"write", "write">>)

ValOk(q, R) ==
  CASE q.op \in {"Close", "GetState", "GetMany", "GetExact", "DeletePrefix"} -> q.val = R.val
    [] OTHER -> TRUE

\* successor states allowed for a request: the specified one; a refused Drop may or may not have
\* consumed a handle (the property is silent)
Succ(q, R) == IF q.op = "Drop" /\ R.res # "ok" THEN {R.st, st} ELSE {R.st}

ReqStep(q) ==
  LET R == ActorStep(st, q) IN
  /\ Prop = "C14" => /\ (q.res = "ok") = (R.res = "ok")
                     /\ q.res = "ok" => ValOk(q, R)
  \* C07: a write attempt that passes the open / author gates is refused exactly when the capability is not write
  /\ (Prop = "C07" /\ q.op \in {"InsertLocal", "DeletePrefix"} /\ R.res \in {"ok", "ReadOnly", "NewerEntryExists"}
        /\ q.res \in {"ok", "ReadOnly", "NewerEntryExists"})
       => (q.res = "ReadOnly") = (R.res = "ReadOnly")
  /\ st' \in Succ(q, R)

ShutdownOk(r) ==
  /\ r.res = "ok"
  /\ \A d \in 1..Len(r.docs) : r.docs[d].cap = st.docs[d].cap /\ (Prop = "C14" => ToSet(r.docs[d].st) = st.docs[d].recs)

Init == l = 1 /\ st = Start
Step ==
  /\ l <= Len(Rec)
  /\ LET r == Rec[l] IN
       CASE r.ev = "Reset" -> st' = StartWith(r.caps)
         [] r.ev = "Req" -> ReqStep(r)
         [] r.ev = "Shutdown" -> ShutdownOk(r) /\ st' = st
         [] OTHER -> FALSE
  /\ l' = l + 1
Spec == Init /\ [][Step]_vars
Accepted ==
  IF TLCGet("stats").diameter - 1 = Len(Rec) THEN TRUE
  ELSE /\ PrintT(<<"REJECTED_AT", TLCGet("stats").diameter, "OF", Len(Rec)>>)
       /\ PrintT(<<"EVENT", ToJson(Rec[TLCGet("stats").diameter])>>)
       /\ FALSE
=============================================================================
