----------------------------- MODULE ActorTrace -----------------------------
(* Trace validation of pipelined request batches served by the real store actor
   (harness `vdrive actor`).  Requests appear in send order (one FIFO channel);
   each reply must be what Actor!ActorStep prescribes for the state reached by
   all earlier requests; the store handed back by shutdown must hold exactly the
   specified contents (C14).                                                   *)
EXTENDS ActorCore, Json, IOUtils

CONSTANT Prop   \* "C14": every reply; "C07": only what depends on the capability; "C12": only subscriber event streams;
                \* "C17" / "C15" / "C13" / "C16": the useful-peer list / the download policy (and the download flag of remote
                \* events) / news detection / the protected content hashes as served through the actor

Rec == ndJsonDeserialize(IOEnv.TRACE)
VARIABLES l, st, pend   \* pend[sid]: events subscriber sid must have received since the last drain
vars == <<l, st, pend>>

StartWith(caps) == [docs |-> [d \in 1..Len(caps) |-> [cap |-> caps[d], recs |-> {}, peers |-> <<>>, pol |-> DefaultPolicy]], open |-> <<>>, authors |-> {1, 2}]
Start == StartWith(<<"write", "write">>)

ValOk(q, R) ==
  CASE q.op \in {"Close", "GetMany", "GetExact", "DeletePrefix"} -> q.val = R.val
    \* handles and the sync switch are C14's subject; the subscriber count is compared under C12 only
    [] q.op = "GetState" -> q.val[1] = R.val[1] /\ q.val[2] = R.val[2] /\ (Prop = "C12" => q.val[3] = R.val[3])
    [] OTHER -> TRUE

\* successor states allowed for a request: the specified one; a refused Drop may or may not have
\* consumed a handle (the property is silent)
Succ(q, R) == IF q.op = "Drop" /\ R.res # "ok" THEN {R.st, st}
              ELSE IF q.op = "SetPolicy" /\ q.res # "ok" /\ ~IsOpen(st, q.d) THEN {st}     \* a refused request changes nothing
              ELSE {R.st}

\* ---- subscriber events through the actor (C12) ----
Writes == {"InsertLocal", "DeletePrefix", "InsertRemote"}
EvOf(q) == IF q.op = "InsertRemote"
           THEN [o |-> "remote", e |-> q.e, from |-> 1, cs |-> 2, dl |-> Matches(st.docs[q.d].pol, q.e.k)]   \* the policy current at that moment
           ELSE [o |-> "local", e |-> q.e, from |-> 0, cs |-> 0, dl |-> FALSE]
Subs(q) == IF IsOpen(st, q.d) THEN st.open[q.d].subs ELSE {}
Known(sids) == [s \in (DOMAIN pend) \cup sids |-> IF s \in DOMAIN pend THEN pend[s] ELSE <<>>]
NextPend(q, R) ==
  LET p0 == Known(IF q.op \in {"Open", "Subscribe", "Unsubscribe"} THEN {q.sid} ELSE {}) IN
  \* C12 speaks of entries that actually entered the replica: it follows the acknowledged outcome (whether the entry
  \* should have been admitted is C02's question); the other properties follow the specified outcome
  IF q.op \in Writes /\ (IF Prop \in {"C12", "C15"} THEN q.res = "ok" ELSE R.res = "ok")
  THEN [s \in DOMAIN p0 |-> IF s \in Subs(q) THEN Append(p0[s], EvOf(q)) ELSE p0[s]]
  ELSE p0
Want(r, i) == IF r.evs[i].sid \in DOMAIN pend THEN pend[r.evs[i].sid] ELSE <<>>
DrainOk(r) == \A i \in 1..Len(r.evs) : r.evs[i].events = Want(r, i)
\* C14 asks for the events, not for the download flag (that is C12's and C15's subject)
Strip(ev) == [o |-> ev.o, e |-> ev.e, from |-> ev.from, cs |-> ev.cs]
DrainOkNoDl(r) == \A i \in 1..Len(r.evs) :
   /\ Len(r.evs[i].events) = Len(Want(r, i))
   /\ \A j \in 1..Len(Want(r, i)) : Strip(r.evs[i].events[j]) = Strip(Want(r, i)[j])
\* C15: the download flag of every remote event is the verdict of the policy that was current when the entry was applied
\* (whether the right events arrive at all is C12's question: judged only where the streams line up)
DrainDlOk(r) == \A i \in 1..Len(r.evs) :
   Len(r.evs[i].events) = Len(Want(r, i)) =>
      \A j \in 1..Len(Want(r, i)) : r.evs[i].events[j].o = "remote" => r.evs[i].events[j].dl = Want(r, i)[j].dl

\* requests about which C14 says nothing (it names reading, writing, subscribing and reconciling on a document that is
\* not open, not these): either outcome is accepted, the state does not change in any case
Silent(s, q) ==
  \/ q.op \in {"Unsubscribe", "ExportSecret"} /\ ~IsOpen(s, q.d)
  \/ q.op = "Drop" /\ ~IsOpen(s, q.d) /\ s.docs[q.d].cap = "none"          \* removing a document that is not there

ReqStep(q) ==
  LET R == ActorStep(st, q) IN
  \* C17 through the actor: a registration succeeds exactly for a document that exists, and the list read back is the
  \* five most recently registered distinct peers, most recent first
  /\ (Prop = "C17" /\ q.op \in {"RegisterPeer", "GetPeers"}) =>
        \* a registration succeeds exactly for a document that exists; a read that answers gives the list of the document
        \* (nothing for a document that is not there) - whether reading asks for an open document is not C17's business
        /\ q.op = "RegisterPeer" => (q.res = "ok") = (R.res = "ok")
        /\ q.op = "GetPeers" => IF q.res = "ok" THEN q.val = st.docs[q.d].peers ELSE ~IsOpen(st, q.d)
  \* C15 through the actor: a policy can be set exactly for a document that exists and is read back unchanged
  \* (whether these requests ask for an open document is nobody's business: a refusal for a document that is not open is
  \* accepted and changes nothing; the actor of the pinned tree serves them regardless)
  /\ (Prop = "C15" /\ q.op = "SetPolicy") => /\ (R.res # "ok" => q.res # "ok")
                                              /\ ((R.res = "ok" /\ IsOpen(st, q.d)) => q.res = "ok")
  /\ (Prop = "C15" /\ q.op = "GetPolicy" /\ st.docs[q.d].cap # "none") =>
        IF q.res = "ok" THEN q.val = R.val ELSE ~IsOpen(st, q.d)
  \* C16 through the actor: no policy of a document that is not there can be observed; the hash list is exact
  /\ (Prop = "C16" /\ q.op = "GetPolicy" /\ st.docs[q.d].cap = "none" /\ q.res = "ok") => q.val = R.val
  /\ (Prop = "C16" /\ q.op = "Hashes") => q.res = "ok" /\ ToSet(q.val[1]) = R.val[1]
  \* C13 through the actor: a report is news exactly for the authors it names with a newer timestamp than any record held
  /\ (Prop = "C13" /\ q.op = "HasNews") => IF q.res = "ok" THEN q.val = R.val ELSE ~IsOpen(st, q.d)
  /\ Prop = "C14" => \/ Silent(st, q)
                     \/ q.op \in {"RegisterPeer", "GetPeers", "SetPolicy", "GetPolicy", "HasNews", "Hashes"}   \* (not C14's subject)
                     \/ /\ (q.res = "ok") = (R.res = "ok")
                        /\ q.res = "ok" => ValOk(q, R)
  \* C07: a write attempt that passes the open / author gates is refused exactly when the capability is not write
  /\ (Prop = "C07" /\ q.op \in {"InsertLocal", "DeletePrefix", "ExportSecret"} /\ R.res \in {"ok", "ReadOnly", "NewerEntryExists"}
        /\ q.res \in {"ok", "ReadOnly", "NewerEntryExists"})
       => (q.res = "ReadOnly") = (R.res = "ReadOnly")
  /\ st' \in Succ(q, R)
  /\ pend' = NextPend(q, R)

\* ---- concurrent clients: is there an interleaving of the two recorded sequences (each in its own order) such
\*      that every reply is what ActorStep prescribes in the state reached?  (linearizability of the handle)
ReplyMatches(s, q) ==
  LET R == ActorStep(s, q) IN Silent(s, q) \/ ((q.res = "ok") = (R.res = "ok") /\ (q.res = "ok" => ValOk(q, R)))
RECURSIVE Lin(_, _, _, _, _)
Lin(s, c1, i, c2, j) ==
  IF i > Len(c1) /\ j > Len(c2) THEN TRUE
  ELSE \/ (i <= Len(c1) /\ ReplyMatches(s, c1[i]) /\ Lin(ActorStep(s, c1[i]).st, c1, i + 1, c2, j))
       \/ (j <= Len(c2) /\ ReplyMatches(s, c2[j]) /\ Lin(ActorStep(s, c2[j]).st, c1, i, c2, j + 1))
ConcOk(r) == Lin(st, r.clients[1], 1, r.clients[2], 1)

ShutdownOk(r) ==
  /\ r.res = "ok"
  /\ \A d \in 1..Len(r.docs) : r.docs[d].cap = st.docs[d].cap /\ (Prop = "C14" => ToSet(r.docs[d].st) = st.docs[d].recs)

Init == l = 1 /\ st = Start /\ pend = <<>>
Step ==
  /\ l <= Len(Rec)
  /\ LET r == Rec[l] IN
       CASE r.ev = "Reset" -> st' = StartWith(r.caps) /\ pend' = <<>>
         [] r.ev = "Req" -> ReqStep(r)
         [] r.ev = "Drain" -> (Prop = "C12" => DrainOk(r)) /\ (Prop = "C14" => DrainOkNoDl(r)) /\ (Prop = "C15" => DrainDlOk(r)) /\ st' = st /\ pend' = [s \in DOMAIN pend |-> <<>>]
         [] r.ev = "Conc" -> (Prop = "C14" => ConcOk(r)) /\ st' = st /\ pend' = pend
         [] r.ev = "Shutdown" -> (Prop # "C12" => ShutdownOk(r)) /\ st' = st /\ pend' = pend
         [] OTHER -> FALSE
  /\ l' = l + 1
Spec == Init /\ [][Step]_vars
Accepted ==
  IF TLCGet("stats").diameter - 1 = Len(Rec) THEN TRUE
  ELSE /\ PrintT(<<"REJECTED_AT", TLCGet("stats").diameter, "OF", Len(Rec)>>)
       /\ PrintT(<<"EVENT", ToJson(Rec[TLCGet("stats").diameter])>>)
       /\ FALSE
=============================================================================
