---------------------------- MODULE DownloadsTrace ----------------------------
(* Trace validation of the real live actor's content-download bookkeeping
   (harness `vdrive downloads`, hooks H6 / H8): after every handler call the queued
   hashes with their waiting documents, the missing hashes, the download tasks
   started and the events seen by each document's subscriber must be what
   Downloads!DStep prescribes.                                                  *)
EXTENDS Downloads, Json, IOUtils

Rec == ndJsonDeserialize(IOEnv.TRACE)
VARIABLES l, D
vars == <<l, D>>

ToSetSeq(s) == {s[i] : i \in 1..Len(s)}
D0 == [have |-> {}, queued |-> <<>>, missing |-> {}, may |-> {}, syncing |-> {1, 2}]

QueuedOf(r) == {<<r.queued[i].h, ToSetSeq(r.queued[i].docs)>> : i \in 1..Len(r.queued)}
Flat(evs) == UNION {evs[i] : i \in 1..Len(evs)}
\* the events one document's subscriber must have seen for this step: its ContentReady (if any), then its PendingContentReady
Expected(evs, ns) ==
  LET ready == IF Len(evs) >= 1 THEN {e \in evs[1] : e.ns = ns /\ e.kind = "ContentReady"} ELSE {}
      pend == {e \in Flat(evs) : e.ns = ns /\ e.kind = "PendingContentReady"}
  IN (IF ready = {} THEN <<>> ELSE <<CHOOSE e \in ready : TRUE>>) \o (IF pend = {} THEN <<>> ELSE <<CHOOSE e \in pend : TRUE>>)

StepOk(r) ==
  LET R == DStep(D, r) IN
  /\ QueuedOf(r) = {<<h, R.D.queued[h]>> : h \in DOMAIN R.D.queued}
  /\ ToSetSeq(r.missing) = R.D.missing
  /\ {<<r.started[i][1], r.started[i][2]>> : i \in 1..Len(r.started)} = R.started
  /\ \A ns \in 1..Len(r.seen) : r.seen[ns] = Expected(R.evs, ns)
  /\ D' = R.D

Init == l = 1 /\ D = D0
Step ==
  /\ l <= Len(Rec)
  /\ LET r == Rec[l] IN
       CASE r.ev = "Reset" -> D' = D0
         [] r.ev = "Step" -> StepOk(r)
         [] OTHER -> FALSE
  /\ l' = l + 1
Spec == Init /\ [][Step]_vars
Accepted ==
  IF TLCGet("stats").diameter - 1 = Len(Rec) THEN TRUE
  ELSE /\ PrintT(<<"REJECTED_AT", TLCGet("stats").diameter, "OF", Len(Rec)>>)
       /\ PrintT(<<"EVENT", ToJson(Rec[TLCGet("stats").diameter])>>)
       /\ FALSE
=============================================================================
