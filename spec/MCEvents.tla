---- MODULE MCEvents ----
EXTENDS Events
E(k, t, h) == [a |-> 1, k |-> k, ts |-> t, h |-> h, len |-> IF h = 0 THEN 0 ELSE 1]
UEv == {[e |-> E(k, t, h), ok |-> ok] : k \in {<<>>, <<0>>}, t \in {1, 2}, h \in {0, 1}, ok \in {TRUE}}
        \cup {[e |-> E(<<0>>, 2, 1), ok |-> FALSE]}
Pol == [kind |-> "only", filters |-> << <<"prefix", <<0>>>> >>]
====
