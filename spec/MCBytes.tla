---- MODULE MCBytes ----
EXTENDS Bytes, TLC
B == {0, 1, 254, 255}
Keys == {<<>>} \cup {<<a>> : a \in B} \cup {<<a, b>> : a \in B, b \in B} \cup {<<a, b, c>> : a \in B, b \in B, c \in B}
ASSUME PrefixRangeLemma(Keys)
ASSUME LexTotal(Keys)
ASSUME LexAsym(Keys)
\* sensitivity: the carry increment is NOT a prefix bound
ASSUME \E p \in Keys, k \in Keys : InBoundRange(p, k, FALSE) /\ ~KeyPrefix(p, k)
VARIABLE x
Init == x = 0
Next == UNCHANGED x
====
