---------------------------- MODULE ReplicaTrace ----------------------------
(* Trace validation of replica histories recorded from the real store
   (harness `vdrive replica`).  Every line carries the projected state after the
   step; a step is accepted iff (pre, event, post) satisfies the obligations of
   the property selected by Prop.  pre is the post-state of the previous line,
   so the recorded state sequence is checked against the specification's
   next-state relation step by step (C02 C03 C12 C13; the download flag of C15). *)
EXTENDS Ranger, Policy, Json, IOUtils

CONSTANT Prop      \* "C02" | "C03" | "C08" | "C12" | "C13" | "C15"

Rec == ndJsonDeserialize(IOEnv.TRACE)

VARIABLES l,        \* next line to consume
          store,    \* contents after the previous line
          offered,  \* acceptable entries offered so far in this run
          subs,     \* active subscriber slots
          policy,   \* download policy
          fpmap,    \* observed fingerprint value -> range contents
          conform   \* the store has followed Entries!Put on every step of this run so far
vars == <<l, store, offered, subs, policy, fpmap, conform>>

EmptyHex == "af1349b9f5f9a1a6a0404dea36dcc9499bcb25c9adc112b7cc9a93cae41f3262"
Impossible == {[a |-> -1, k |-> <<>>, ts |-> 0, h |-> 0, len |-> 0]}
Lookup(hex) ==
  IF hex = EmptyHex THEN {}
  ELSE IF \E p \in fpmap : p[1] = hex THEN (CHOOSE p \in fpmap : p[1] = hex)[2]
  ELSE Impossible
HexFpEq(set, hex) == set = Lookup(hex)
HexFpEmpty(hex) == hex = EmptyHex

HeadsTs(hs) == [a \in {hs[i].a : i \in 1..Len(hs)} |-> hs[CHOOSE i \in 1..Len(hs) : hs[i].a = a].ts]
HeadsUnique(hs) == \A i, j \in 1..Len(hs) : hs[i].a = hs[j].a => i = j

Val(r) == [e |-> r.e, cs |-> r.cs, nsok |-> r.nsok, sigok |-> r.sigok]

\* is the entry of a Put event acceptable on its path?
PutValid(r) ==
  CASE r.path = "local"  -> r.e.h # 0 /\ r.e.len # 0
    [] r.path = "delete" -> TRUE
    [] OTHER             -> Acceptable(Val(r), r.now, TRUE)
Rejections == {"InvalidNamespace", "BadSignature", "TooFarInTheFuture", "InvalidEmptyEntry", "EntryIsEmpty"}

EvOf(path, v, from) ==
  IF path \in {"local", "delete"}
  THEN [o |-> "local", e |-> v.e, from |-> 0, cs |-> 0, dl |-> FALSE]
  ELSE [o |-> "remote", e |-> v.e, from |-> from, cs |-> v.cs, dl |-> Matches(policy, v.e.k)]

\* expected events of subscriber slot s for a sequence of applied values
ExpectedEvs(s, path, ins, from) ==
  IF s \in subs THEN [i \in 1..Len(ins) |-> EvOf(path, ins[i], from)] ELSE <<>>
EvsOk(r, path, ins, from) == \A s \in 1..Len(r.evs) : r.evs[s] = ExpectedEvs(s, path, ins, from)

\* ---------------------------------------------------------------- Put
PutC02(r, pre, post) ==
  IF ~PutValid(r) THEN TRUE
  ELSE /\ (r.res = "ok") = SpecPutOk(pre, r.e)
       /\ SpecPutOk(pre, r.e) =>
             /\ post = (pre \ SpecPruned(pre, r.e)) \cup {r.e}
             /\ r.removed = Cardinality(SpecPruned(pre, r.e))
       /\ ~SpecPutOk(pre, r.e) => (r.res = "NewerEntryExists" /\ post = pre)
       /\ post = Kept(offered \cup {r.e})

HasTwin(r) == "twin" \in DOMAIN r
TwinOk(r, post) == HasTwin(r) => ToSet(r.twin) = post

PutC03(r, pre, post) ==
  /\ \A i \in 1..Len(r.sok) : r.sok[i]
  /\ HasTwin(r) => r.tw = PutValid(r)
  /\ r.path = "remote" =>
       IF PutValid(r)
       THEN r.res \in {"ok", "NewerEntryExists"}
       ELSE /\ r.res # "ok"          \* refused (with which variant is not C03's business)
            /\ post = pre
            /\ \A s \in 1..Len(r.evs) : r.evs[s] = <<>>

PutC12(r) ==
  EvsOk(r, r.path, IF r.res = "ok" THEN <<Val(r)>> ELSE <<>>, r.from)

HeadsOk(r, post) == HeadsUnique(r.heads) /\ HeadsTs(r.heads) = HeadsOf(post)

\* ---------------------------------------------------------------- Msg
\* the logged reply equals the specified reply up to the fingerprint abstraction
PartShapeEq(sp, lg) ==
  \* (the have_local hint of an outgoing part is not compared: it only asks the peer for a reply, and whether that reply
  \*  was needed shows in the final sets - the next step is computed from the part as it was actually received)
  /\ sp.t = lg.t /\ sp.x = lg.x /\ sp.y = lg.y
  /\ Len(sp.vals) = Len(lg.vals)
  /\ \A i \in 1..Len(sp.vals) : sp.vals[i].e = lg.vals[i].e /\ sp.vals[i].cs = lg.vals[i].cs
ReplyShapeEq(spec, logged) ==
  Len(spec) = Len(logged) /\ \A i \in 1..Len(spec) : PartShapeEq(spec[i], logged[i])
NewFpPairs(spec, logged) ==
  {<<logged[i].fp, spec[i].fp>> : i \in {j \in 1..Len(spec) : spec[j].t = "fp"}}
Injective(m) == \A p \in m, q \in m : (p[1] = q[1]) = (p[2] = q[2])

RECURSIVE FlattenFrom(_, _)
FlattenFrom(parts, i) == IF i > Len(parts) THEN <<>> ELSE parts[i].vals \o FlattenFrom(parts, i + 1)
FlattenVals(parts) == FlattenFrom(parts, 1)

MsgR(r, pre) == Process(pre, r.parts, r.cfg, r.now, HexFpEq, HexFpEmpty)

MsgStoreOk(r, pre, post) ==
  LET R == MsgR(r, pre) IN
  /\ r.res = "ok"
  /\ post = R.S
  /\ ReplyShapeEq(R.out, r.reply)
  /\ Injective(fpmap \cup NewFpPairs(R.out, r.reply) \cup {<<EmptyHex, {}>>})
  /\ r.recv = ValueCount(r.parts)
  /\ r.sent = ValueCount(r.reply)
  /\ ~R.bad

MsgC03(r, pre, post) ==
  LET R == MsgR(r, pre)
      all == UNION {ToSet(p.vals) : p \in ToSet(r.parts)}
      bad == {v \in all : ~Acceptable(v, r.now, TRUE)}
      goodEntries == {v.e : v \in all \ bad}
  IN /\ \A i \in 1..Len(r.sok) : r.sok[i]
     /\ r.res = "ok"
     \* nothing unacceptable is stored or announced
     /\ (post \ pre) \subseteq goodEntries
     /\ \A s \in 1..Len(r.evs) : \A i \in 1..Len(r.evs[s]) : r.evs[s][i].e \in goodEntries
     \* a message carrying only unacceptable entries changes nothing
     /\ (all = bad) => post = pre
     \* the rest is processed as if the bad ones were absent: the driver runs the same history on a twin replica from
     \* which it withholds the entries it marks (tw); the marks must be exactly the unacceptable values, and the two
     \* replicas must hold the same entries after every step (TwinOk).  This way the clause does not depend on the
     \* admission rule itself (a defect of that rule is C02's to report; both replicas run the same code).
     /\ HasTwin(r) => \A p \in 1..Len(r.parts) : \A i \in 1..Len(r.parts[p].vals) :
                          r.tw[p][i] = Acceptable(r.parts[p].vals[i], r.now, TRUE)
     \* without a twin (replayed schedules of other drivers): judged while the store has followed the admission rule so far
     /\ (~HasTwin(r) /\ conform /\ bad # {}) => post = R.S

MsgC12(r, pre, post) ==
  \* Which entries of a message enter the replica is the admission rule's business (C02) and, for an entry that is
  \* superseded later in the same message, not observable.  C12 is therefore stated on what is observable: every entry
  \* that entered and stayed was announced exactly once; an announced entry that did not stay was replaced by one
  \* at a prefix of its key that did; only acceptable values of this message are announced, each at most once, in message order, with the
  \* sender, the content status it came with and the download flag of the current policy; every subscriber sees the
  \* same sequence and nobody else sees anything.
  LET flat == FlattenVals(r.parts)
      \* (whether a value of the message was acceptable at all is C03's question: any value of the message may be named)
      Pos(ev) == {n \in 1..Len(flat) : flat[n].e = ev.e /\ flat[n].cs = ev.cs}
  IN \A s \in 1..Len(r.evs) :
       IF s \in subs
       THEN LET L == r.evs[s] IN
            /\ \A e \in post \ pre : Cardinality({i \in 1..Len(L) : L[i].e = e}) = 1
            /\ \A i \in 1..Len(L) :
                  /\ Pos(L[i]) # {}
                  /\ L[i].o = "remote" /\ L[i].from = r.from /\ L[i].dl = Matches(policy, L[i].e.k)
                  /\ L[i].e \notin post =>
                        \E f \in post : f.a = L[i].e.a /\ KeyPrefix(f.k, L[i].e.k)   \* (by which order: C02's business)
            /\ \A i, j \in 1..Len(L) : i < j => L[i].e # L[j].e
            \* message order: positions can be chosen increasing
            /\ \A i, j \in 1..Len(L) : i < j => \E m \in Pos(L[i]), n \in Pos(L[j]) : m < n
            /\ \A t \in subs : r.evs[t] = L
       ELSE r.evs[s] = <<>>

\* C15 on the replica: the download flag of every remote-insert event is the verdict of the policy that is current
\* when the entry arrives (a policy change takes effect at once, also on an open replica)
DlOk(r) ==
  \A s \in 1..Len(r.evs) : \A i \in 1..Len(r.evs[s]) :
     r.evs[s][i].o = "remote" => r.evs[s][i].dl = Matches(policy, r.evs[s][i].e.k)

\* ---------------------------------------------------------------- dispatch
Check(r, pre, post) ==
  CASE r.ev = "Put" ->
         (CASE Prop = "C02" -> PutC02(r, pre, post)
            [] Prop = "C03" -> PutC03(r, pre, post)
            [] Prop = "C12" -> PutC12(r)
            [] Prop = "C13" -> HeadsOk(r, post)
            [] Prop = "C15" -> DlOk(r)
            [] Prop = "C08" -> TRUE)
    [] r.ev = "Msg" ->
         (CASE Prop = "C02" -> MsgStoreOk(r, pre, post)
            [] Prop = "C03" -> MsgC03(r, pre, post)
            [] Prop = "C12" -> MsgC12(r, pre, post)
            [] Prop = "C13" -> HeadsOk(r, post)
            [] Prop = "C15" -> DlOk(r)
            [] Prop = "C08" -> MsgStoreOk(r, pre, post))
    [] r.ev = "RemoveDoc" -> r.res = "ok" /\ post = {} /\ (Prop = "C13" => r.heads = <<>>)
    [] r.ev = "Reopen" -> post = pre /\ (Prop = "C13" => HeadsOk(r, post))
    [] r.ev = "News" ->
         /\ post = pre
         /\ (Prop = "C13" => /\ HeadsOk(r, post)
                             /\ r.count = NewsCount(HeadsTs(r.theirs), HeadsOf(post)))
         /\ (Prop = "C12" => \A s \in 1..Len(r.evs) : r.evs[s] = <<>>)
    [] r.ev \in {"Sub", "Unsub", "DropRx", "Policy"} ->
         /\ post = pre
         /\ (Prop = "C12" => \A s \in 1..Len(r.evs) : r.evs[s] = <<>>)
         /\ (Prop = "C13" => HeadsOk(r, post))
         /\ (r.ev = "Policy" => r.res = "ok")
    [] OTHER -> FALSE

NextOffered(r) ==
  CASE r.ev = "Put" /\ PutValid(r) -> offered \cup {r.e}
    [] r.ev = "Msg" -> offered \cup {v.e : v \in {w \in UNION {ToSet(p.vals) : p \in ToSet(r.parts)} :
                                                   Acceptable(w, r.now, ValidateEmptyInSync)}}
    [] r.ev = "RemoveDoc" -> {}
    [] OTHER -> offered

StepConforms(r, pre, post) ==
  CASE r.ev = "Put" -> post = (IF PutValid(r) THEN Put(pre, r.e) ELSE pre)
    [] r.ev = "Msg" -> post = MsgR(r, pre).S
    [] OTHER -> TRUE

Init == l = 1 /\ store = {} /\ offered = {} /\ subs = {} /\ policy = DefaultPolicy
        /\ fpmap = {<<EmptyHex, {}>>} /\ conform = TRUE

Step ==
  /\ l <= Len(Rec)
  /\ LET r == Rec[l] IN
     IF r.ev = "Reset"
     THEN /\ store' = {} /\ offered' = {} /\ subs' = {} /\ policy' = DefaultPolicy
          /\ fpmap' = {<<EmptyHex, {}>>} /\ conform' = TRUE
     ELSE /\ r.ev # "PANIC"
          /\ Check(r, store, ToSet(r.st))
          /\ Prop = "C03" => TwinOk(r, ToSet(r.st))
          /\ store' = ToSet(r.st)
          /\ conform' = (conform /\ StepConforms(r, store, ToSet(r.st)))
          /\ offered' = NextOffered(r)
          /\ subs' = (CASE r.ev = "Sub" -> subs \cup {r.s}
                        [] r.ev \in {"Unsub", "DropRx"} -> subs \ {r.s}
                        [] r.ev \in {"RemoveDoc", "Reopen"} -> {}
                        [] OTHER -> subs)
          /\ policy' = IF r.ev = "Policy" THEN [kind |-> r.kind, filters |-> r.filters]
                       ELSE IF r.ev = "RemoveDoc" THEN DefaultPolicy ELSE policy
          /\ fpmap' = IF r.ev = "Msg" /\ Prop \in {"C02", "C08"}
                      THEN fpmap \cup NewFpPairs(MsgR(r, store).out, r.reply) ELSE fpmap
  /\ l' = l + 1

Spec == Init /\ [][Step]_vars

\* acceptance: every line was consumed
Accepted ==
  IF TLCGet("stats").diameter - 1 = Len(Rec) THEN TRUE
  ELSE /\ PrintT(<<"REJECTED_AT", TLCGet("stats").diameter, "OF", Len(Rec)>>)
       /\ PrintT(<<"EVENT", ToJson(Rec[TLCGet("stats").diameter])>>)
       /\ FALSE
=============================================================================
