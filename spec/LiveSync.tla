------------------------------ MODULE LiveSync ------------------------------
(* Coordination of reconciliation sessions between two nodes for one document
   (src/engine/state.rs, src/engine/live.rs): per (document, peer) a slot
   Idle | Running(Connect) | Running(Accept) and a resync_requested flag decide
   who dials, who accepts, and what happens when the two ends of a session finish
   (C11).  One action per handler of the code:

     Dial            sync_with_peer -> start_connect           (live.rs / state.rs)
     Join / Leave    start_sync / leave: the document enters / leaves the sync set (live.rs)
     QueueDownload / DownloadReady   the content-download bookkeeping running beside (live.rs)
     DeliverRequest  AcceptSyncRequest -> accept_request        (state.rs)
     HandleConnectDone  on_sync_via_connect_finished            (live.rs)
     HandleAcceptDone   on_sync_via_accept_finished             (live.rs)
   and the environment (network and the two session tasks):
     LoseRequest, DeliverAbort, EndDialer, EndAcceptor.
   The two ends of a session finish independently with any result, and the two
   task results are handled independently, as in the actor's select! loop.      *)
EXTENDS Naturals, FiniteSets, Sequences, TLC

CONSTANTS MaxDials,            \* bound on the number of dials
          FixAbortLeak,        \* on RemoteAbort(AlreadySyncing) free a slot that is still Running(Connect) (D9 when FALSE)
          KeepResyncOnAccept,  \* an accept that overrides a running connect keeps the resync flag (D10 when FALSE)
          SyncingChoices,      \* possible sets of nodes that have the document in their sync set
          DialReasons,         \* reasons the environment dials with
          MaxLeaves,           \* bound on the number of times a node leaves the document (0: the sync set never changes)
          OtherReasonsMayQueue, \* a dial refused for a reason other than SyncReport may queue a resync as well (trace validation only)
          JoinWaitsForQuiet,   \* a node re-joins only when none of its sessions is still in flight (assumption; FALSE shows why)
          Yielder              \* the node that gives up its own pending dial when both dial at once (the code: the greater
                               \* endpoint id = node 2; C11 only demands that exactly one of the two does)

Node == {1, 2}
Other(n) == 3 - n

VARIABLES st,       \* st[n] \in {"Idle","Connect","Accept"}
          resync,   \* resync[n]: resync_requested
          dials,    \* sequence of dial records
          syncing,  \* nodes that sync the document (start_sync / leave)
          syncing0, \* history: the sync set at the start (for replay)
          pend,     \* pend[n]: a content download of the document is queued at n (live.rs queued_hashes; survives leave)
          leaves,   \* number of Leave steps so far
          owed,     \* history: a news report was refused at n since its slot became busy
          bad,      \* history: labels of violated action properties
          hist      \* history: the schedule (for replay on the real code); hidden by the VIEW
vars == <<st, resync, dials, syncing, syncing0, pend, leaves, owed, bad, hist>>
view == <<st, resync, dials, syncing, syncing0, pend, leaves, owed, bad>>

nd == Len(dials)
Ids == 1..nd
NewDial(n, reason) == [from |-> n, reason |-> reason, cph |-> "Req", cres |-> "none", aph |-> "None", ares |-> "none"]

Init == /\ st = [n \in Node |-> "Idle"] /\ resync = [n \in Node |-> FALSE]
        /\ dials = <<>> /\ syncing \in SyncingChoices /\ syncing0 = syncing
        /\ pend = [n \in Node |-> FALSE] /\ leaves = 0
        /\ owed = [n \in Node |-> FALSE] /\ bad = {} /\ hist = <<>>

\* ---- state.rs ---------------------------------------------------------------
\* accept_request at node m for a request from Other(m)
AcceptDecision(m) ==
  IF m \notin syncing THEN "NotFound"
  ELSE IF st[m] = "Idle" THEN "Allow"
  ELSE IF st[m] = "Accept" THEN "AlreadySyncing"
  ELSE IF m = Yielder THEN "Allow" ELSE "AlreadySyncing"     \* simultaneous dial: exactly one side yields

\* ---- sync_with_peer / start_connect -------------------------------------------
DialAs(label, n, reason) ==
  /\ nd < MaxDials
  /\ hist' = Append(hist, [a |-> label, n |-> n, reason |-> reason, d |-> 0, res |-> ""])
  /\ IF n \notin syncing
     THEN UNCHANGED <<st, resync, dials, owed>>
     ELSE IF st[n] # "Idle"
     THEN \* a refused report queues a resync (C11); whether a dial refused for another reason queues one too is not
          \* C11's business: the model follows the code (it does not), a validated trace may show either
          /\ \E q \in (IF reason = "SyncReport" THEN {TRUE}
                       ELSE IF OtherReasonsMayQueue THEN {resync[n], TRUE} ELSE {resync[n]}) :
                resync' = [resync EXCEPT ![n] = q]
          /\ owed' = [owed EXCEPT ![n] = IF reason = "SyncReport" THEN TRUE ELSE @]
          /\ UNCHANGED <<st, dials>>
     ELSE /\ st' = [st EXCEPT ![n] = "Connect"]
          /\ resync' = [resync EXCEPT ![n] = FALSE]
          /\ dials' = Append(dials, NewDial(n, reason))
          /\ owed' = [owed EXCEPT ![n] = FALSE]
  /\ UNCHANGED <<syncing, syncing0, pend, leaves, bad>>

Dial(n, reason) == DialAs("Dial", n, reason)

\* start_sync for a document that is in the sync set already (a second import of the ticket, share, start_sync(peers)):
\* the per-document state stays as it is; the peers remembered for the document are dialled like any DirectJoin dial,
\* i.e. only a peer whose slot is idle
StartSyncAgain(n) == MaxLeaves > 0 /\ n \in syncing /\ DialAs("StartSync", n, "DirectJoin")

\* ---- network / tasks ----------------------------------------------------------
LoseRequest(d) ==
  /\ dials[d].cph = "Req"
  /\ dials' = [dials EXCEPT ![d].cph = "Done", ![d].cres = "connfail"]
  /\ hist' = Append(hist, [a |-> "LoseRequest", n |-> 0, reason |-> "", d |-> d, res |-> ""])
  /\ UNCHANGED <<st, resync, syncing, syncing0, pend, leaves, owed, bad>>

DeliverRequest(d) ==
  /\ dials[d].cph = "Req"
  /\ LET m == Other(dials[d].from)
         dec == AcceptDecision(m) IN
     /\ hist' = Append(hist, [a |-> "DeliverRequest", n |-> m, reason |-> "", d |-> d, res |-> dec])
     /\ IF dec = "Allow"
        THEN /\ dials' = [dials EXCEPT ![d].cph = "Sess", ![d].aph = "Sess"]
             /\ st' = [st EXCEPT ![m] = "Accept"]
             /\ resync' = [resync EXCEPT ![m] = IF KeepResyncOnAccept /\ st[m] = "Connect" THEN @ ELSE FALSE]
        ELSE /\ dials' = [dials EXCEPT ![d].cph = "Wait", ![d].cres = dec, ![d].aph = "Done", ![d].ares = dec]
             /\ UNCHANGED <<st, resync>>
  /\ UNCHANGED <<syncing, syncing0, pend, leaves, owed, bad>>

\* the abort reply reaches the dialer, or the connection dies first
DeliverAbort(d, lost) ==
  /\ dials[d].cph = "Wait"
  /\ dials' = [dials EXCEPT ![d].cph = "Done", ![d].cres = IF lost THEN "err" ELSE @]
  /\ hist' = Append(hist, [a |-> "DeliverAbort", n |-> 0, reason |-> "", d |-> d, res |-> IF lost THEN "lost" ELSE "delivered"])
  /\ UNCHANGED <<st, resync, syncing, syncing0, pend, leaves, owed, bad>>

EndDialer(d, res) ==
  /\ dials[d].cph = "Sess"
  /\ dials' = [dials EXCEPT ![d].cph = "Done", ![d].cres = res]
  /\ hist' = Append(hist, [a |-> "EndDialer", n |-> 0, reason |-> "", d |-> d, res |-> res])
  /\ UNCHANGED <<st, resync, syncing, syncing0, pend, leaves, owed, bad>>

EndAcceptor(d, res) ==
  /\ dials[d].aph = "Sess"
  /\ dials' = [dials EXCEPT ![d].aph = "Done", ![d].ares = res]
  /\ hist' = Append(hist, [a |-> "EndAcceptor", n |-> 0, reason |-> "", d |-> d, res |-> res])
  /\ UNCHANGED <<st, resync, syncing, syncing0, pend, leaves, owed, bad>>

\* ---- completion handlers (on_sync_finished -> state.finish -> resync) ------------
Finish(n, dd) ==
  IF n \notin syncing
  THEN dials' = dd /\ UNCHANGED <<st, resync, owed, bad>>
  ELSE LET was == st[n] IN
       IF was # "Idle" /\ resync[n]
       THEN \* sync_with_peer(Resync) right away: the slot is idle now, so it starts (if the bound allows)
            /\ IF Len(dd) < MaxDials
               THEN dials' = Append(dd, NewDial(n, "Resync")) /\ st' = [st EXCEPT ![n] = "Connect"] /\ UNCHANGED bad
               ELSE \* the model's bound suppressed the follow-up dial: the behaviour is not replayable
                    dials' = dd /\ st' = [st EXCEPT ![n] = "Idle"] /\ bad' = bad \cup {"Capped"}
            /\ resync' = [resync EXCEPT ![n] = FALSE]
            /\ owed' = [owed EXCEPT ![n] = FALSE]
       ELSE /\ st' = [st EXCEPT ![n] = "Idle"]
            /\ dials' = dd
            /\ UNCHANGED resync
            /\ owed' = [owed EXCEPT ![n] = FALSE]
            /\ bad' = IF owed[n] /\ was # "Idle" THEN bad \cup {"ResyncLost"} ELSE bad

HandleConnectDone(d) ==
  /\ dials[d].cph = "Done"
  /\ hist' = Append(hist, [a |-> "HandleConnectDone", n |-> dials[d].from, reason |-> dials[d].reason, d |-> d, res |-> dials[d].cres])
  /\ LET n == dials[d].from
         dd == [dials EXCEPT ![d].cph = "Handled"] IN
     IF dials[d].cres = "AlreadySyncing"
     THEN IF FixAbortLeak /\ n \in syncing /\ st[n] = "Connect"
          THEN Finish(n, dd)
          ELSE dials' = dd /\ UNCHANGED <<st, resync, owed, bad>>
     ELSE Finish(n, dd)
  /\ UNCHANGED <<syncing, syncing0, pend, leaves>>

HandleAcceptDone(d) ==
  /\ dials[d].aph = "Done"
  /\ hist' = Append(hist, [a |-> "HandleAcceptDone", n |-> Other(dials[d].from), reason |-> "", d |-> d, res |-> dials[d].ares])
  /\ LET m == Other(dials[d].from)
         dd == [dials EXCEPT ![d].aph = "Handled"] IN
     IF dials[d].ares = "AlreadySyncing"
     THEN dials' = dd /\ UNCHANGED <<st, resync, owed, bad>>
     ELSE Finish(m, dd)
  /\ UNCHANGED <<syncing, syncing0, pend, leaves>>

\* ---- the sync set changes (start_sync / leave) and the download bookkeeping goes on beside it -------------------
\* a dial or session of node n is still in flight or unhandled
InFlight(n) == \E d \in Ids : \/ (dials[d].from = n /\ dials[d].cph # "Handled")
                               \/ (dials[d].from = Other(n) /\ dials[d].aph \notin {"None", "Handled"})
Env(act, n) == hist' = Append(hist, [a |-> act, n |-> n, reason |-> "", d |-> 0, res |-> ""])

\* leave: the per-document state of the node is dropped, whatever it was; queued downloads stay queued
Leave(n) ==
  /\ n \in syncing /\ leaves < MaxLeaves
  /\ syncing' = syncing \ {n} /\ leaves' = leaves + 1
  /\ st' = [st EXCEPT ![n] = "Idle"] /\ resync' = [resync EXCEPT ![n] = FALSE] /\ owed' = [owed EXCEPT ![n] = FALSE]
  /\ Env("Leave", n) /\ UNCHANGED <<dials, syncing0, pend, bad>>

\* start_sync: a fresh per-document state; the peers remembered for the document are dialled at once (DirectJoin),
\* so a node that synced with the other one before starts a dial right here
Join(n, dialNow) ==
  /\ n \notin syncing /\ leaves > 0
  /\ JoinWaitsForQuiet => ~InFlight(n)
  /\ syncing' = syncing \cup {n}
  /\ hist' = Append(hist, [a |-> "Join", n |-> n, reason |-> "", d |-> 0, res |-> IF dialNow THEN "dial" ELSE ""])
  /\ IF dialNow
     THEN /\ nd < MaxDials
          /\ st' = [st EXCEPT ![n] = "Connect"] /\ dials' = Append(dials, NewDial(n, "DirectJoin"))
     ELSE UNCHANGED <<st, dials>>
  /\ UNCHANGED <<resync, syncing0, pend, leaves, owed, bad>>

\* a remote entry whose content is wanted arrives: a download is queued (on_replica_event -> start_download)
QueueDownload(n) ==
  /\ MaxLeaves > 0 /\ n \in syncing /\ ~pend[n]
  /\ pend' = [pend EXCEPT ![n] = TRUE]
  /\ Env("QueueDownload", n) /\ UNCHANGED <<st, resync, dials, syncing, syncing0, leaves, owed, bad>>

\* the download task reports (on_download_ready): whatever the sync set is by now, it must not touch the coordination state
DownloadReady(n, ok) ==
  /\ pend[n]
  /\ pend' = [pend EXCEPT ![n] = FALSE]
  /\ hist' = Append(hist, [a |-> "DownloadReady", n |-> n, reason |-> "", d |-> 0, res |-> IF ok THEN "ok" ELSE "err"])
  /\ UNCHANGED <<st, resync, dials, syncing, syncing0, leaves, owed, bad>>

Next ==
  \/ \E n \in Node : Leave(n) \/ (\E now \in BOOLEAN : Join(n, now)) \/ StartSyncAgain(n) \/ QueueDownload(n) \/ \E ok \in BOOLEAN : DownloadReady(n, ok)
  \/ \E n \in Node, r \in DialReasons : Dial(n, r)
  \/ \E d \in Ids : \/ LoseRequest(d) \/ DeliverRequest(d)
                    \/ \E lost \in BOOLEAN : DeliverAbort(d, lost)
                    \/ \E res \in {"ok", "err"} : EndDialer(d, res) \/ EndAcceptor(d, res)
                    \/ HandleConnectDone(d) \/ HandleAcceptDone(d)
Spec == Init /\ [][Next]_vars

\* ---- properties ---------------------------------------------------------------
\* a session is in progress while neither end has finished
InProgress(d) == dials[d].cph = "Sess" /\ dials[d].aph = "Sess"
NoTwoSessions == Cardinality({d \in Ids : InProgress(d)}) <= 1

\* nothing in flight: every dial has been handled at both ends
Quiescent == \A d \in Ids : dials[d].cph = "Handled" /\ dials[d].aph \in {"None", "Handled"}
SlotFreed == Quiescent => \A n \in Node : st[n] = "Idle"

\* a refused news report leads to a follow-up dial when the slot is released
NoResyncLost == "ResyncLost" \notin bad

\* two requests that crossed are never both accepted
Crossed(d1, d2) == d1 # d2 /\ dials[d1].from # dials[d2].from /\ InProgress(d1) /\ InProgress(d2)
SimulExactlyOne == ~\E d1 \in Ids, d2 \in Ids : Crossed(d1, d2)

\* requests for a document that is not being synced are declined as not found and leave no state
NotFoundWhenNotSyncing == \A n \in Node : n \notin syncing => st[n] = "Idle" /\ ~resync[n]
=============================================================================
