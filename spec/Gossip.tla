------------------------------- MODULE Gossip -------------------------------
(* Lifecycle of a document's gossip topic inside one node (src/engine/gossip.rs,
   extension X06): GossipState keeps, per document in the sync set, the topic
   sender and a receive loop task.  One action per code path:

     StartSync   live.rs start_sync -> join_peers -> GossipState::join (subscribe + spawn receive_loop
                 unless the topic is already active)
     Leave       live.rs leave -> GossipState::quit (abort the loop, forget the topic)
     Receive     receive_loop: one gossip event (an Op - Put, ContentReady, SyncReport - a neighbour
                 event, or bytes that are no Op at all)
     Reap        GossipState::progress: a receive loop that returned is joined and its topic forgotten
     Write       live.rs on_replica_event(LocalInsert) -> GossipState::broadcast (silently nothing when
                 the topic is not active)

   The environment may put anything on the topic: the topic id is the document id,
   every holder of a ticket (also a read-only one) is a member of the swarm.       *)
EXTENDS Naturals, FiniteSets, Sequences, TLC

CONSTANTS MaxSteps,
          GarbageTolerated   \* an undecodable message is skipped (TRUE) or ends the receive loop with an error (FALSE: the
                             \* code, `postcard::from_bytes(&msg.content)?`)

VARIABLES member,    \* the document is in the live actor's sync set
          topic,     \* "none" | "active"            (GossipState.active has an entry)
          loop,      \* "none" | "running" | "ended" (the receive_loop task)
          heard,     \* number of well-formed messages applied so far
          sent,      \* number of local writes actually broadcast
          muted,     \* history: number of local writes that were NOT broadcast while the document was in the sync set
          missed,    \* history: number of well-formed messages that arrived while the document was in the sync set and
                     \* were not applied
          steps
vars == <<member, topic, loop, heard, sent, muted, missed, steps>>

Init == member = FALSE /\ topic = "none" /\ loop = "none" /\ heard = 0 /\ sent = 0 /\ muted = 0 /\ missed = 0 /\ steps = 0

Tick == steps < MaxSteps /\ steps' = steps + 1

StartSync ==
  /\ Tick /\ member' = TRUE
  /\ IF topic = "active" THEN UNCHANGED <<topic, loop>>       \* Occupied: only join_peers
     ELSE topic' = "active" /\ loop' = "running"               \* Vacant: subscribe, spawn receive_loop
  /\ UNCHANGED <<heard, sent, muted, missed>>

Leave ==
  /\ Tick /\ member /\ member' = FALSE
  /\ topic' = "none" /\ loop' = "none"                         \* quit: abort handle
  /\ UNCHANGED <<heard, sent, muted, missed>>

\* a message arrives on the topic of the document (delivered by iroh-gossip to every subscriber that still listens)
Receive(wellformed) ==
  /\ Tick
  /\ IF loop = "running"
     THEN IF wellformed THEN heard' = heard + 1 /\ UNCHANGED <<loop, missed>>
          ELSE /\ loop' = IF GarbageTolerated THEN "running" ELSE "ended"
               /\ UNCHANGED <<heard, missed>>
     ELSE /\ missed' = IF member /\ wellformed THEN missed + 1 ELSE missed
          /\ UNCHANGED <<heard, loop>>
  /\ UNCHANGED <<member, topic, sent, muted>>

\* the actor loop polls GossipState::progress while the set of active topics is not empty
Reap ==
  /\ Tick /\ loop = "ended"
  /\ topic' = "none" /\ loop' = "none"
  /\ UNCHANGED <<member, heard, sent, muted, missed>>

Write ==
  /\ Tick /\ member
  /\ IF topic = "active" THEN sent' = sent + 1 /\ UNCHANGED muted
     ELSE muted' = muted + 1 /\ UNCHANGED sent
  /\ UNCHANGED <<member, topic, loop, heard, missed>>

Next == StartSync \/ Leave \/ Reap \/ Write \/ \E wf \in BOOLEAN : Receive(wf)
Spec == Init /\ [][Next]_vars

\* a document in the sync set has a topic and somebody listening on it ...
ListeningWhileSyncing == member => (topic = "active" /\ loop = "running")
\* ... so nothing it writes stays unannounced and nothing well-formed that reaches it is ignored
NothingMuted == muted = 0
NothingMissed == missed = 0
\* and the bookkeeping itself is tidy whatever arrives
Tidy == /\ (topic = "none") = (loop = "none")
        /\ ~member => topic = "none"
=============================================================================
