----------------------------- MODULE SwarmTrace -----------------------------
(* Trace validation of swarm schedules on real file-backed replicas (harness
   `vdrive swarm`).  Each step is a step of Swarm.tla's next-state relation:
   a local write, a gossip delivery, a (possibly cut) session, a restart; the
   closing phase must end with every replica at Kept(written) (C04).          *)
EXTENDS Entries, SequencesExt, Json, IOUtils

Rec == ndJsonDeserialize(IOEnv.TRACE)
VARIABLES l, store, written
vars == <<l, store, written>>

Leq(S, T) == Kept(S \cup T) = T
Set(r, S) == [x \in DOMAIN store |-> IF x = r THEN S ELSE store[x]]

\* after a possibly cut session, side `mine` has learnt some of what the other side held
LearntSome(mine, other, post) ==
  /\ Leq(mine, post)
  /\ Leq(post, Kept(mine \cup other))
  /\ post \subseteq mine \cup other

Check(r) ==
  CASE r.ev = "Write" ->
         LET pre == store[r.r] IN
         /\ (r.res = "ok") = PutOk(pre, r.e)
         /\ ToSet(r.st) = Put(pre, r.e)
         /\ store' = Set(r.r, ToSet(r.st))
         /\ written' = IF r.res = "ok" THEN written \cup {r.e} ELSE written
    [] r.ev = "Deliver" ->
         /\ r.e \in written                    \* only written entries travel
         /\ ToSet(r.st) = Put(store[r.r], r.e)
         /\ store' = Set(r.r, ToSet(r.st)) /\ UNCHANGED written
    [] r.ev = "Sess" ->
         LET A == store[r.a]  B == store[r.b]  A2 == ToSet(r.stA)  B2 == ToSet(r.stB) IN
         /\ IF r.complete THEN A2 = Kept(A \cup B) /\ B2 = A2
            ELSE LearntSome(A, B \cup B2, A2) /\ LearntSome(B, A \cup A2, B2)
         /\ store' = [x \in DOMAIN store |-> IF x = r.a THEN A2 ELSE IF x = r.b THEN B2 ELSE store[x]]
         /\ UNCHANGED written
    [] r.ev = "Restart" -> ToSet(r.st) = store[r.r] /\ UNCHANGED <<store, written>>
    [] r.ev = "Closed" ->
         /\ \A i \in 1..Len(r.sts) : ToSet(r.sts[i]) = store[i] /\ store[i] = Kept(written)
         /\ UNCHANGED <<store, written>>
    [] OTHER -> FALSE

Init == l = 1 /\ store = <<>> /\ written = {}
Step ==
  /\ l <= Len(Rec)
  /\ LET r == Rec[l] IN
     IF r.ev = "Reset" THEN store' = [i \in 1..r.nrep |-> {}] /\ written' = {}
     ELSE Check(r)
  /\ l' = l + 1
Spec == Init /\ [][Step]_vars

\* no replica ever holds an entry that was not written by some replica; stores stay normalized
OnlyWritten == \A i \in DOMAIN store : store[i] \subseteq written
Normal == \A i \in DOMAIN store : store[i] = Kept(store[i])
Accepted ==
  IF TLCGet("stats").diameter - 1 = Len(Rec) THEN TRUE
  ELSE /\ PrintT(<<"REJECTED_AT", TLCGet("stats").diameter, "OF", Len(Rec)>>)
       /\ PrintT(<<"EVENT", ToJson(Rec[TLCGet("stats").diameter])>>)
       /\ FALSE
=============================================================================
