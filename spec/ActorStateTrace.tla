--------------------------- MODULE ActorStateTrace ---------------------------
(* Validation of traces recorded from the store actor while the repository's OWN
   test suite runs (extension X04; hook H9): the actor thread logs, for every
   request on a document, the request kind and the document's {open, handles, sync,
   subscribers} before and after handling it.  One run = one (process, actor,
   document).  Checked: the open/close counting and the sync switch of ActorCore
   (C14's subject) as a transition relation on the actor's real state, and that
   nothing changes a document's state between two requests.                      *)
EXTENDS Naturals, Sequences, TLC, Json, IOUtils

Rec == ndJsonDeserialize(IOEnv.TRACE)
VARIABLES l, cur
vars == <<l, cur>>

Closed == [open |-> FALSE, handles |-> 0, sync |-> FALSE, subs |-> 0]
One(b) == IF b THEN 1 ELSE 0
SameHS(a, b) == a.open = b.open /\ a.handles = b.handles /\ a.sync = b.sync

Release(r) ==   \* one handle is given back
  IF ~r.pre.open \/ r.pre.handles = 1 THEN r.post = Closed
  ELSE r.post.open /\ r.post.handles = r.pre.handles - 1 /\ r.post.sync = r.pre.sync /\ r.post.subs = r.pre.subs

StepOk(r) ==
  /\ r.pre = cur
  /\ r.pre.open => r.pre.handles >= 1
  /\ CASE r.op = "Open" ->
            IF r.pre.open
            THEN /\ r.post.open /\ r.post.handles = r.pre.handles + 1
                 /\ r.post.sync = (r.pre.sync \/ r.sync)                   \* enabling is sticky
                 /\ r.post.subs = r.pre.subs + One(r.sub)
            ELSE \/ r.post = Closed                                          \* refused: unknown document
                 \/ /\ r.post.open /\ r.post.handles = 1 /\ r.post.sync = r.sync /\ r.post.subs = One(r.sub)
       [] r.op \in {"Close", "DropReplica"} -> Release(r)
       [] r.op = "SetSync" -> IF r.pre.open THEN r.post = [r.pre EXCEPT !.sync = r.sync] ELSE r.post = Closed
       [] r.op = "Subscribe" -> IF r.pre.open THEN r.post = [r.pre EXCEPT !.subs = @ + 1] ELSE r.post = Closed
       [] r.op = "Unsubscribe" -> SameHS(r.pre, r.post) /\ r.post.subs \in {r.pre.subs, r.pre.subs - 1}
       \* reads, writes and reconciliation requests leave handles and the switch alone; subscribers whose receiver
       \* is gone may be dropped on the way
       [] OTHER -> SameHS(r.pre, r.post) /\ r.post.subs <= r.pre.subs
  /\ cur' = r.post

Init == l = 1 /\ cur = Closed
Step ==
  /\ l <= Len(Rec)
  /\ LET r == Rec[l] IN
       CASE r.ev = "Reset" -> cur' = Closed
         [] r.ev = "Act" -> StepOk(r)
         [] OTHER -> FALSE
  /\ l' = l + 1
Spec == Init /\ [][Step]_vars
Accepted ==
  IF TLCGet("stats").diameter - 1 = Len(Rec) THEN TRUE
  ELSE /\ PrintT(<<"REJECTED_AT", TLCGet("stats").diameter, "OF", Len(Rec)>>)
       /\ PrintT(<<"EVENT", ToJson(Rec[TLCGet("stats").diameter])>>)
       /\ FALSE
=============================================================================
