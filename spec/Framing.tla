------------------------------ MODULE Framing ------------------------------
(* Model: every chunking of a small stream of frames through FramingCore!DecodeStep. *)
EXTENDS FramingCore

\* ---- model: all chunkings of a small stream ----
CONSTANTS Lens, MaxChunk
VARIABLES fed, pos, k, out
vars == <<fed, pos, k, out>>
Total == LET S[i \in 0..Len(Lens)] == IF i = 0 THEN 0 ELSE S[i - 1] + 4 + Lens[i] IN S[Len(Lens)]
Init == fed = 0 /\ pos = 0 /\ k = 0 /\ out = <<>>
Feed(n) == /\ fed + n <= Total /\ fed' = fed + n /\ UNCHANGED <<pos, k, out>>
Decode == LET r == DecodeStep(Lens, fed, pos, k) IN
          /\ r.res = "frame"
          /\ pos' = r.pos /\ k' = r.k /\ out' = Append(out, r.k) /\ UNCHANGED fed
Next == (\E n \in 1..MaxChunk : Feed(n)) \/ Decode
Spec == Init /\ [][Next]_vars
\* frames come out in order, each exactly once, never one that was not completely fed
InOrderOnce == out = [i \in 1..Len(out) |-> i]
OnlyComplete == pos <= fed
AllDelivered == (fed = Total /\ DecodeStep(Lens, fed, pos, k).res = "need") => k = Len(Lens)
=============================================================================
