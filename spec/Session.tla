------------------------------ MODULE Session ------------------------------
(* A complete reconciliation session between two replicas A (initiator) and B,
   message by message, followed by an immediate second session (C01).          *)
EXTENDS Ranger, FiniteSetsExt

CONSTANTS Universe,    \* entries initial stores are drawn from
          MaxInit,     \* max entries offered to each side initially
          Configs,     \* set of <<split_factor, max_set_size>>
          MaxRounds,   \* termination bound checked
          Shards, Shard \* initial pairs are partitioned into Shards parts; this run explores part Shard

VARIABLES A, B, A0, B0, cfg, wire, turn, rounds, sentA, recvA, sentB, recvB, dbg, phase, carried
vars == <<A, B, A0, B0, cfg, wire, turn, rounds, sentA, recvA, sentB, recvB, dbg, phase, carried>>

Now == 1000
Subsets(U, n) == {X \in SUBSET U : Cardinality(X) <= n}
\* spreads the initial pairs over the shards (any deterministic function of the pair would do)
Weight(X) == FoldSet(LAMBDA e, acc : acc + e.ts + 2 * e.a + 5 * Len(e.k) + (IF e.h = 0 THEN 1 ELSE 0), Cardinality(X), X)
P(S, m) == Process(S, m, cfg, Now, SetFpEq, SetFpEmpty)

Init ==
  /\ \E X \in Subsets(Universe, MaxInit), Y \in Subsets(Universe, MaxInit) :
        /\ (Weight(X) + 3 * Weight(Y)) % Shards = Shard
        /\ A = Kept(X) /\ B = Kept(Y)
  /\ A0 = A /\ B0 = B
  /\ cfg \in Configs
  /\ wire = InitMsg(A)
  /\ turn = "B" /\ rounds = 0
  /\ sentA = 0 /\ recvA = 0 /\ sentB = 0 /\ recvB = 0
  /\ dbg = FALSE /\ phase = 1 /\ carried = TRUE

Step ==
  /\ turn \in {"A", "B"} /\ rounds < MaxRounds
  /\ IF turn = "B"
     THEN LET r == P(B, wire) IN
          /\ B' = r.S /\ A' = A
          /\ recvB' = recvB + ValueCount(wire)
          /\ sentB' = sentB + ValueCount(r.out)
          /\ UNCHANGED <<sentA, recvA>>
          /\ wire' = r.out
          /\ dbg' = (dbg \/ r.bad)
          \* every entry carried by the reply was in the sender's store when sent
          /\ carried' = (carried /\ MsgEntries(r.out) \subseteq (B \cup r.S))
          /\ turn' = IF r.out = <<>> THEN "done" ELSE "A"
     ELSE LET r == P(A, wire) IN
          /\ A' = r.S /\ B' = B
          /\ recvA' = recvA + ValueCount(wire)
          /\ sentA' = sentA + ValueCount(r.out)
          /\ UNCHANGED <<sentB, recvB>>
          /\ wire' = r.out
          /\ dbg' = (dbg \/ r.bad)
          /\ carried' = (carried /\ MsgEntries(r.out) \subseteq (A \cup r.S))
          /\ turn' = IF r.out = <<>> THEN "done" ELSE "B"
  /\ rounds' = rounds + 1
  /\ UNCHANGED <<A0, B0, cfg, phase>>

\* second session right after the first
Again ==
  /\ turn = "done" /\ phase = 1
  /\ phase' = 2 /\ wire' = InitMsg(A) /\ turn' = "B" /\ rounds' = 0
  /\ sentA' = 0 /\ recvA' = 0 /\ sentB' = 0 /\ recvB' = 0
  /\ UNCHANGED <<A, B, A0, B0, cfg, dbg, carried>>

Next == Step \/ Again
Spec == Init /\ [][Next]_vars

Terminates == rounds < MaxRounds
Converges == turn = "done" => (A = B /\ A = Kept(A0 \cup B0))
Mirror == turn = "done" => (sentA = recvB /\ sentB = recvA)
SecondIsQuiet == (phase = 2 /\ turn = "done") => (rounds = 1 /\ sentA = 0 /\ sentB = 0)
NoDebugAssert == ~dbg
Normal == A = Kept(A) /\ B = Kept(B)
CarriedWereHeld == carried
NoForeign == (A \cup B) \subseteq (A0 \cup B0)
=============================================================================
