------------------------------ MODULE FramingCore ------------------------------
(* Stream framing of the sync protocol (src/net/codec.rs SyncCodec): a 4-byte
   big-endian length, then a postcard body.  decode() on the buffered bytes gives
   "need" (fewer than 4 + len bytes buffered), "frame" (consuming exactly 4 + len
   bytes) or "err" (len > MAX or the body does not decode).  C09, framing part. *)
EXTENDS Naturals, Sequences, TLC

\* the pure decoder step: lens = body lengths of the frames of the stream, pos = bytes consumed,
\* fed = bytes buffered so far (counted from the start of the stream), k = frames produced
NextLen(lens, k) == IF k < Len(lens) THEN lens[k + 1] ELSE 0
DecodeStep(lens, fed, pos, k) ==
  IF fed - pos < 4 THEN [res |-> "need", pos |-> pos, k |-> k]
  ELSE IF k >= Len(lens) THEN [res |-> "need", pos |-> pos, k |-> k]
  ELSE IF fed - pos < 4 + lens[k + 1] THEN [res |-> "need", pos |-> pos, k |-> k]
  ELSE [res |-> "frame", pos |-> pos + 4 + lens[k + 1], k |-> k + 1]
=============================================================================
