------------------------------- MODULE Events -------------------------------
(* Subscribers of a replica (src/sync.rs Subscribers / insert_entry /
   sync_process_message on_insert_cb): C12.
   Mechanism: a list of senders; every applied entry is sent to each sender; a
   sender whose receiver is gone is dropped at the next send; unsubscribe removes
   exactly the given sender.  History variable `expect[s]` records what the
   property says subscriber s must have seen.                                   *)
EXTENDS Entries, Policy, TLC

CONSTANTS Universe,         \* values [e, ok] : entry + whether it is acceptable (valid)
          Slots,            \* subscriber slots
          MaxSteps,
          AnnounceOnlyApplied,   \* FALSE: events also for rejected/superseded entries
          UnsubExact,            \* FALSE: unsubscribe removes every sender
          ThePolicy

VARIABLES store, senders, alive, got, expect, steps, subscribed
vars == <<store, senders, alive, got, expect, steps, subscribed>>

Init == /\ store = {} /\ senders = <<>> /\ alive = {}
        /\ got = [s \in Slots |-> <<>>] /\ expect = [s \in Slots |-> <<>>] /\ steps = 0
        /\ subscribed = {}

Ev(v, path) == [e |-> v.e, o |-> path, dl |-> IF path = "remote" THEN Matches(ThePolicy, v.e.k) ELSE FALSE]

Offer(v, path) ==
  /\ steps < MaxSteps /\ steps' = steps + 1
  /\ LET applied == v.ok /\ PutOk(store, v.e)
         announce == applied \/ ~AnnounceOnlyApplied
     IN /\ store' = IF applied THEN PutStore(store, v.e) ELSE store
        /\ got' = [s \in Slots |-> IF announce /\ s \in alive /\ \E i \in 1..Len(senders) : senders[i] = s
                                   THEN Append(got[s], Ev(v, path)) ELSE got[s]]
        \* senders whose receiver is gone are dropped when a send is attempted
        /\ senders' = IF announce THEN SelectSeq(senders, LAMBDA s : s \in alive) ELSE senders
        \* history: what the property says each subscribed slot must see
        /\ expect' = [s \in Slots |-> IF applied /\ s \in subscribed
                                      THEN Append(expect[s], Ev(v, path)) ELSE expect[s]]
  /\ UNCHANGED <<alive, subscribed>>

Subscribe(s) ==
  /\ steps < MaxSteps /\ steps' = steps + 1
  /\ ~\E i \in 1..Len(senders) : senders[i] = s
  /\ s \notin alive
  /\ senders' = Append(senders, s) /\ alive' = alive \cup {s}
  /\ got' = [got EXCEPT ![s] = <<>>] /\ expect' = [expect EXCEPT ![s] = <<>>]
  /\ subscribed' = subscribed \cup {s}
  /\ UNCHANGED store

Unsubscribe(s) ==
  /\ steps < MaxSteps /\ steps' = steps + 1
  /\ \E i \in 1..Len(senders) : senders[i] = s
  /\ senders' = IF UnsubExact THEN SelectSeq(senders, LAMBDA x : x # s) ELSE <<>>
  /\ alive' = alive \ {s}
  /\ subscribed' = subscribed \ {s}
  /\ UNCHANGED <<store, got, expect>>

DropReceiver(s) ==
  /\ steps < MaxSteps /\ steps' = steps + 1
  /\ s \in alive /\ alive' = alive \ {s}
  /\ subscribed' = subscribed \ {s}
  /\ UNCHANGED <<store, senders, got, expect>>

Next == \/ \E v \in Universe, p \in {"local", "remote"} : Offer(v, p)
        \/ \E s \in Slots : Subscribe(s) \/ Unsubscribe(s) \/ DropReceiver(s)
Spec == Init /\ [][Next]_vars

ExactlyOnePerApplied == \A s \in Slots : got[s] = expect[s]
=============================================================================
