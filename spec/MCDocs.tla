---- MODULE MCDocs ----
EXTENDS Docs
Ids3 == {<<1, 255>>, <<2, 0>>, <<255, 255>>}
E(a, k, t, h) == [a |-> a, k |-> k, ts |-> t, h |-> h, len |-> IF h = 0 THEN 0 ELSE 1]
EU == {E(1, <<0>>, 1, 1), E(1, <<0>>, 2, 0), E(2, <<>>, 1, 1)}
P2 == {[kind |-> "only", filters |-> << <<"prefix", <<0>>>> >>]}
EU18 == {E(1, <<0>>, 2, 1), E(1, <<1>>, 1, 1), E(2, <<>>, 1, 0)}
Ids2 == {<<1, 255>>, <<2, 0>>}
P7 == 1..7
NoPols == {}
NoEntries == {}
====
