---- MODULE MCLiveSync ----
EXTENDS LiveSync, Json, SequencesExt
Both == {{1, 2}}
AnySyncing == {{1, 2}, {1}, {2}}
TwoReasons == {"NewNeighbor", "SyncReport"}
AllReasons == {"NewNeighbor", "SyncReport", "DirectJoin"}
\* schedule export: one line per quiescent final state (BFS: one path per distinct state; simulation: every walk)
Final == Quiescent /\ nd = MaxDials /\ "Capped" \notin bad
EmitSchedules == Final => PrintT(<<"SCHED", ToJson([syncing |-> SetToSeq(syncing), hist |-> hist])>>)
====
