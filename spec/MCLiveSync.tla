---- MODULE MCLiveSync ----
EXTENDS LiveSync, Json, SequencesExt
Both == {{1, 2}}
AnySyncing == {{1, 2}, {1}, {2}}
TwoReasons == {"NewNeighbor", "SyncReport"}
AllReasons == {"NewNeighbor", "SyncReport", "DirectJoin"}
\* schedule export: one line per quiescent final state (BFS: one path per distinct state; simulation: every walk)
Final == Quiescent /\ nd = MaxDials /\ "Capped" \notin bad
EmitSchedules == Final => PrintT(<<"SCHED", ToJson([syncing |-> SetToSeq(syncing0), hist |-> hist])>>)
\* edge export: one schedule per transition of the state graph (the discovery path of the source state + the action),
\* so that every (state, action) pair of the model is replayed on the real code at least once
EmitEdges == ("Capped" \notin bad') => PrintT(<<"SCHED", ToJson([syncing |-> SetToSeq(syncing0'), hist |-> hist'])>>)
====
