--------------------------- MODULE DownloadsModel ---------------------------
(* All interleavings of replica events, neighbour announcements, download
   completions (success / failure) and finished syncs over a few documents and
   hashes.  Download tasks are part of the environment: `tasks` holds the (ns, h)
   pairs for which start_download spawned a task that has not reported yet.     *)
EXTENDS Downloads

CONSTANTS Docs, Hashes, MaxSteps

VARIABLES D, tasks, owed, log, lastw, nsteps
\* owed[ns]: a sync of ns finished and no PendingContentReady was emitted for ns since (history)
\* log: the last step's events (history, hidden by the VIEW)
\* lastw: <<h, documents that were waiting for h>> when the last step was a successful download completion (history)
vars == <<D, tasks, owed, log, lastw, nsteps>>

Init == /\ D = [have |-> {}, queued |-> <<>>, missing |-> {}, may |-> {}, syncing |-> Docs]
        /\ tasks = {} /\ owed = {} /\ log = <<>> /\ lastw = <<0, {}>> /\ nsteps = 0

Flat(evs) == UNION {evs[i] : i \in 1..Len(evs)}
Apply(c) ==
  LET R == DStep(D, c)
      pcr == {e.ns : e \in {x \in Flat(R.evs) : x.kind = "PendingContentReady"}}
  IN /\ D' = R.D
     /\ tasks' = (IF c.op = "DownloadReady" THEN tasks \ {<<c.ns, c.h>>} ELSE tasks) \cup R.started
     /\ owed' = ((IF c.op = "SyncFinished" /\ c.ns \in D.syncing THEN owed \cup {c.ns} ELSE owed) \ pcr)
                 \ (IF c.op = "Leave" THEN {c.ns} ELSE {})
     /\ log' = R.evs
     /\ lastw' = IF c.op = "DownloadReady" /\ c.ok /\ c.h \in DOMAIN D.queued THEN <<c.h, D.queued[c.h]>> ELSE <<0, {}>>
     /\ nsteps' = nsteps + 1

Next ==
  /\ nsteps < MaxSteps
  /\ \/ \E ns \in Docs, h \in Hashes, dl \in BOOLEAN, cp \in BOOLEAN :
          Apply([op |-> "RemoteInsert", ns |-> ns, h |-> h, dl |-> dl, complete |-> cp])
     \/ \E ns \in Docs, h \in Hashes : Apply([op |-> "NeighborReady", ns |-> ns, h |-> h])
     \/ \E t \in tasks, ok \in BOOLEAN : Apply([op |-> "DownloadReady", ns |-> t[1], h |-> t[2], ok |-> ok])
     \/ \E ns \in Docs : Apply([op |-> "SyncFinished", ns |-> ns])
     \/ \E h \in Hashes : Apply([op |-> "Have", h |-> h])
     \/ \E ns \in Docs : Apply([op |-> "Leave", ns |-> ns]) \/ Apply([op |-> "Join", ns |-> ns])
Spec == Init /\ [][Next]_vars

\* ---- invariants ----
\* exactly the queued hashes have a running download task
TasksMatchQueue == {t[2] : t \in tasks} = DOMAIN D.queued /\ \A t \in tasks : t[1] \in D.queued[t[2]]
NoEmptyWaiters == \A h \in DOMAIN D.queued : D.queued[h] # {}
\* a finished sync is answered by a PendingContentReady as soon as nothing is queued for the document
ReadyNotOverdue == \A ns \in owed : QueuedFor(D, ns) # {}
MayMeansOwed == D.may \subseteq owed
\* a PendingContentReady is only emitted for a document with an empty queue
ReadyMeansIdle == \A e \in Flat(log) : e.kind = "PendingContentReady" => QueuedFor(D, e.ns) = {}
\* design (ReadyToAllDocs): every document waiting for a hash hears that it arrived
AllWaitersHear == \A n \in lastw[2] : Ev(n, "ContentReady", lastw[1]) \in Flat(log)
\* NOT an invariant of the code (kept as a documented observation): a hash can be queued and marked missing at once -
\* on_replica_event inserts into missing_hashes without looking at the queue
QueuedNotMissing == (DOMAIN D.queued) \cap D.missing = {}
=============================================================================
