------------------------------ MODULE ApiTrace ------------------------------
(* Trace validation of a real node driven through the client API (harness
   `vdrive api`): every call's outcome (ok / error) and returned value must be the
   one ApiCore!ApiStep prescribes for the state reached by all earlier calls; after
   a graceful restart documents, authors and the default author are unchanged and
   nothing is open; a node started on a crash image must come up (unless the named
   deviation SetDefaultFlushes = FALSE explains the failure) with the default
   author that was current and present in its own author list.
   Calls made through a Doc object that was closed on the client side fail locally
   (Doc::ensure_open) - except close itself, which is sent again.                *)
EXTENDS ApiCore, Json, IOUtils

Rec == ndJsonDeserialize(IOEnv.TRACE)
VARIABLES l, S
vars == <<l, S>>

Start(r) == [st |-> [docs |-> [d \in 1..r.n |-> NoDoc], open |-> <<>>, authors |-> ToSet(r.authors)],
             live |-> {}, def |-> r.def, dur |-> ToSet(r.authors), nextsid |-> 1]

Pairs(v) == {<<v[i][1], v[i][2]>> : i \in 1..Len(v)}
ValOk(c, R) ==
  CASE c.op \in {"AuthorDefault", "AuthorExport", "Status", "Del"} -> c.val = R.val
    [] c.op = "AuthorList" -> ToSet(c.val) = R.val[1]
    [] c.op = "List" -> Pairs(c.val) = R.val[1]
    [] c.op \in {"GetExact", "GetMany"} -> ToSet(c.val) = ToSet(R.val) /\ Len(c.val) = Len(R.val)
    [] OTHER -> TRUE

ViaClosedObject(c) == "closedobj" \in DOMAIN c /\ c.closedobj /\ c.op # "Close"

CallStep(c) ==
  IF ViaClosedObject(c) THEN c.res = "err" /\ S' = S
  ELSE LET R == ApiStep(S, c) IN
       /\ (c.res = "ok") = (R.res = "ok")
       /\ c.res \in {"ok", "err"}
       /\ c.res = "ok" => ValOk(c, R)
       /\ S' = R.S

RestartStep(r) ==
  /\ r.res = "ok"
  /\ r.def = S.def
  /\ ToSet(r.authors) = S.st.authors
  /\ Pairs(r.list) = {<<d, S.st.docs[d].cap>> : d \in {x \in DOMAIN S.st.docs : S.st.docs[x].cap # "none"}}
  /\ S' = Restarted(S)

CrashStep(r) ==
  /\ r.spawn \/ (~SetDefaultFlushes /\ ~NoDanglingDefault(S))
  /\ r.spawn => r.def = S.def /\ r.def \in ToSet(r.authors)
  /\ S' = S

Init == l = 1 /\ S = Start([n |-> 1, authors |-> <<1>>, def |-> 1])
Step ==
  /\ l <= Len(Rec)
  /\ LET r == Rec[l] IN
       CASE r.ev = "Reset" -> S' = Start(r) /\ r.def \in ToSet(r.authors)
         [] r.ev = "Call" -> CallStep(r)
         [] r.ev = "Restart" -> RestartStep(r)
         [] r.ev = "Crash" -> CrashStep(r)
         [] OTHER -> FALSE
  /\ l' = l + 1
Spec == Init /\ [][Step]_vars
Accepted ==
  IF TLCGet("stats").diameter - 1 = Len(Rec) THEN TRUE
  ELSE /\ PrintT(<<"REJECTED_AT", TLCGet("stats").diameter, "OF", Len(Rec)>>)
       /\ PrintT(<<"EVENT", ToJson(Rec[TLCGet("stats").diameter])>>)
       /\ FALSE
=============================================================================
