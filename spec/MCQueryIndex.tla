---- MODULE MCQueryIndex ----
EXTENDS QueryIndex
Mk(A, K, T, H) == {[a |-> a, k |-> k, ts |-> t, h |-> h, len |-> IF h = 0 THEN 0 ELSE 1] :
                    a \in A, k \in K, t \in T, h \in H}
UQ == Mk({1, 2}, {<<>>, <<0, 255>>, <<1>>}, {1, 2}, {0, 1})
====
