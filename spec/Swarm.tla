-------------------------------- MODULE Swarm --------------------------------
(* A swarm of replicas of one document (src/sync.rs, src/ranger.rs,
   src/engine/gossip.rs receive_loop): local writes and deletions with skewed
   clocks, unreliable broadcast (loss, duplication, reordering), reconciliation
   sessions that may be cut short after any message, restarts from disk, and a
   closing phase of complete sessions over a connected set of pairs (C04).

   Sessions are abstracted by the two facts established in Session.tla /
   validated on the real code under C01/C08: a partial session gives each side
   some of the other side's entries; a complete session leaves both at the join. *)
EXTENDS Entries, Sequences, TLC

CONSTANTS Replicas, Universe, MaxWrites,
          ClosingSeq,         \* the closing phase: complete sessions over a connected set of pairs, in this order
          SessionsJoin        \* a complete session leaves both sides at Kept(A \cup B) (FALSE: only the acceptor learns)

VARIABLES store, written, net, nw, phase, ci
vars == <<store, written, net, nw, phase, ci>>

Init == /\ store = [r \in Replicas |-> {}] /\ written = {} /\ net = {} /\ nw = 0 /\ phase = "run" /\ ci = 1

\* fold a set of entries into a store (order-independent, C02)
PutSet(S, X) == Kept(S \cup X)
Leq(S, T) == Kept(S \cup T) = T

\* a local insert or prefix deletion; the entry is broadcast to every other replica
LocalWrite(r, e) ==
  /\ phase = "run" /\ nw < MaxWrites /\ nw' = nw + 1
  /\ PutOk(store[r], e)
  /\ store' = [store EXCEPT ![r] = Put(@, e)]
  /\ written' = written \cup {e}
  /\ net' = net \cup {<<e, t>> : t \in Replicas \ {r}}
  /\ UNCHANGED <<phase, ci>>

\* gossip delivery = insert_remote_entry; a message may be delivered any number of times (Dup) or never (Drop)
Deliver(m, consume) ==
  /\ phase = "run" /\ m \in net
  /\ store' = [store EXCEPT ![m[2]] = Put(@, m[1])]
  /\ net' = IF consume THEN net \ {m} ELSE net
  /\ UNCHANGED <<written, nw, phase, ci>>
Drop(m) == /\ phase = "run" /\ m \in net /\ net' = net \ {m} /\ UNCHANGED <<store, written, nw, phase, ci>>

\* a session cut after some message: each side has learnt a subset of what the other held
PartialSession(a, b) ==
  /\ phase = "run" /\ a # b
  /\ \E X \in SUBSET store[b], Y \in SUBSET store[a] :
       store' = [store EXCEPT ![a] = PutSet(@, X), ![b] = PutSet(@, Y)]
  /\ UNCHANGED <<written, net, nw, phase, ci>>

CompleteSession(a, b) ==
  /\ a # b
  /\ LET J == Kept(store[a] \cup store[b]) IN
     store' = [store EXCEPT ![a] = IF SessionsJoin THEN J ELSE @, ![b] = J]
  /\ UNCHANGED <<written, net, nw, phase>>

\* restart from disk: a graceful stop flushes, so the contents are unchanged
Restart(r) == phase = "run" /\ UNCHANGED vars

BeginClosing == /\ phase = "run" /\ phase' = "closing" /\ net' = {} /\ UNCHANGED <<store, written, nw, ci>>
Closing == /\ phase = "closing" /\ ci <= Len(ClosingSeq)
           /\ CompleteSession(ClosingSeq[ci][1], ClosingSeq[ci][2]) /\ ci' = ci + 1

Next == \/ \E r \in Replicas, e \in Universe : LocalWrite(r, e)
        \/ \E m \in net, c \in BOOLEAN : Deliver(m, c)
        \/ \E m \in net : Drop(m)
        \/ \E a, b \in Replicas : PartialSession(a, b) \/ (phase = "run" /\ CompleteSession(a, b) /\ UNCHANGED ci)
        \/ BeginClosing \/ Closing
Spec == Init /\ [][Next]_vars

OnlyWritten == \A r \in Replicas : store[r] \subseteq written
Normal == \A r \in Replicas : store[r] = Kept(store[r])
\* after the closing sessions everybody holds the merge of all accepted writes
ClosedMeansConverged ==
  (phase = "closing" /\ ci > Len(ClosingSeq)) => \A r \in Replicas : store[r] = Kept(written)
\* algebraic facts the abstraction of sessions rests on
AbsorptionLemma(U) == \A A \in SUBSET U, B \in SUBSET U : Kept(Kept(A) \cup B) = Kept(A \cup B)
=============================================================================
