------------------------------- MODULE Query -------------------------------
(* Query semantics of a replica (src/store.rs Query, src/store/fs/query.rs): C05.
   A query is [kind, a, kf, key, sort, dir, ie, off, lim]:
     kind "flat" | "latest";  a = 0 (any author) or an author rank;
     kf "any" | "exact" | "prefix" with `key`;  sort "ak" | "ka" (flat only);
     dir "asc" | "desc";  ie = include empty;  off = offset;  lim = limit or -1.
   Where the property is silent the specification is nondeterministic:
   timestamp ties of a latest-per-key group may be resolved either way; the author
   filter of a latest-per-key query may be applied before or after grouping (the
   doc comment of Query and the code disagree).  The include-empty flag is applied
   after grouping: the statement "the entry with the greatest timestamp among all
   authors" rules out answering with an older entry when the newest is a marker. *)
EXTENDS Entries, SequencesExt, TLC

AuthorOk(q, e) == q.a = 0 \/ e.a = q.a
KeyOk(q, e) == CASE q.kf = "any" -> TRUE
                 [] q.kf = "exact" -> e.k = q.key
                 [] q.kf = "prefix" -> KeyPrefix(q.key, e.k)
EmptyOk(q, e) == q.ie \/ ~IsMarker(e)

AKLess(e, f) == e.a < f.a \/ (e.a = f.a /\ LexLess(e.k, f.k))
KALess(e, f) == LexLess(e.k, f.k) \/ (e.k = f.k /\ e.a < f.a)

Window(q, L) ==
  LET n == Len(L)
      from == IF q.off >= n THEN n + 1 ELSE q.off + 1
      avail == n - from + 1
      cnt == IF q.lim = -1 THEN avail ELSE IF q.lim < avail THEN q.lim ELSE avail
  IN SubSeq(L, from, from + cnt - 1)

Directed(q, L) == IF q.dir = "asc" THEN L ELSE Reverse(L)

FlatResult(S, q) ==
  LET M == {e \in S : AuthorOk(q, e) /\ KeyOk(q, e) /\ EmptyOk(q, e)}
      L == IF q.sort = "ak" THEN SetToSortSeq(M, AKLess) ELSE SetToSortSeq(M, KALess)
  IN Window(q, Directed(q, L))

\* ---- latest per key ----
MaxTsOf(C) == CHOOSE t \in {e.ts : e \in C} : \A e \in C : e.ts <= t
Winners(C) == {e \in C : e.ts = MaxTsOf(C)}
KeySeq(Ks) == SetToSortSeq(Ks, LexLess)

\* all concatenations of one option per position; opts is a sequence of sets of (0- or 1-element) sequences
RECURSIVE AllL(_, _)
AllL(opts, i) ==
  IF i > Len(opts) THEN {<<>>}
  ELSE {o \o rest : o \in opts[i], rest \in AllL(opts, i + 1)}

LatestAllowed(S, q, authorBefore, emptyBefore) ==
  LET Pre(e) == KeyOk(q, e) /\ (authorBefore => AuthorOk(q, e)) /\ (emptyBefore => EmptyOk(q, e))
      Post(e) == (~authorBefore => AuthorOk(q, e)) /\ (~emptyBefore => EmptyOk(q, e))
      P == {e \in S : Pre(e)}
      ks == KeySeq({e.k : e \in P})
      Opt(k) == LET W == Winners({e \in P : e.k = k})
                IN {<<e>> : e \in {w \in W : Post(w)}} \cup (IF \E w \in W : ~Post(w) THEN {<<>>} ELSE {})
      opts == [i \in 1..Len(ks) |-> Opt(ks[i])]
  IN {Window(q, Directed(q, L)) : L \in AllL(opts, 1)}

ResultOk(S, q, res) ==
  IF q.kind = "flat" THEN res = FlatResult(S, q)
  ELSE \* the entry with the greatest timestamp among the candidates of a key is selected first; a deletion marker that
       \* wins its group hides the key unless include_empty is set (it is not replaced by an older entry)
       \E ab \in BOOLEAN : res \in LatestAllowed(S, q, ab, FALSE)

\* point lookup
ExactOk(S, a, k, ie, res) ==
  LET M == {e \in S : e.a = a /\ e.k = k /\ (ie \/ ~IsMarker(e))}
  IN IF M = {} THEN res = <<>> ELSE \E e \in M : res = <<e>>
=============================================================================
