INIT Init
NEXT Next
