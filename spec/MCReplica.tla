---- MODULE MCReplica ----
EXTENDS Replica
\* keys: empty key, a 0xFF-suffixed key directly below its lexical successor,
\* plain prefix pairs, all-0xFF key
K4 == { <<>>, <<0>>, <<0, 255>>, <<1>> }
K6 == { <<>>, <<0>>, <<0, 255>>, <<1>>, <<255>>, <<0, 255, 7>> }
Mk(A, K, T, H) == {[a |-> a, k |-> k, ts |-> t, h |-> h, len |-> IF h = 0 THEN 0 ELSE 1] :
                    a \in A, k \in K, t \in T, h \in H}
U_quick == Mk({1}, K4, {1, 2}, {-1, 0, 1}) \cup Mk({2}, {<<>>, <<0>>}, {1, 2}, {0, 1})
U_thorough == Mk({1, 2}, K6, {1, 2, 3}, {-1, 0, 1})
====
