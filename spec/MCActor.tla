---- MODULE MCActor ----
EXTENDS Actor
E(k, t, h) == [a |-> 1, k |-> k, ts |-> t, h |-> h, len |-> IF h = 0 THEN 0 ELSE 1]
R(op, d) == [op |-> op, d |-> d, sync |-> FALSE, sub |-> FALSE, sid |-> 1, e |-> E(<<>>, 1, 1), a |-> 1, k |-> <<>>, kind |-> "read",
            pol |-> DefaultPolicy, report |-> <<>>]
OnlyZero == [kind |-> "only", filters |-> << <<"prefix", <<0>> >> >>]
Reqs == {R("Open", 1), [R("Open", 1) EXCEPT !.sync = TRUE], R("Close", 1), R("Drop", 1),
         [R("SetSync", 1) EXCEPT !.sync = TRUE], [R("SetSync", 1) EXCEPT !.sync = FALSE],
         [R("InsertLocal", 1) EXCEPT !.e = E(<<0>>, 1, 1)], [R("InsertRemote", 1) EXCEPT !.e = E(<<0>>, 2, 1)],
         [R("DeletePrefix", 1) EXCEPT !.e = E(<<>>, 3, 0)],
         R("GetMany", 1), R("SyncInit", 1), R("GetState", 1), R("Subscribe", 1),
         [R("Open", 2) EXCEPT !.sync = TRUE], [R("InsertRemote", 2) EXCEPT !.e = E(<<1>>, 1, 1)], R("Close", 2),
         [R("SetPolicy", 1) EXCEPT !.pol = OnlyZero], R("GetPolicy", 1)}
Progs3 == {<<a, b, c>> : a \in Reqs, b \in Reqs, c \in Reqs}
Progs2 == {<<a, b>> : a \in Reqs, b \in Reqs}
UA == {}
====
