----------------------------- MODULE BytesProof -----------------------------
(* The prefix relation on byte strings (Bytes!KeyPrefix) is a partial order - the three assumptions
   EntriesProof makes about its abstract relation KP, proved for keys of any length.               *)
EXTENDS Naturals, Sequences, SequenceTheorems, TLAPS

Byte == 0..255
Key == Seq(Byte)
KeyPrefix(p, k) == Len(p) <= Len(k) /\ \A i \in 1..Len(p) : p[i] = k[i]

THEOREM KPRefl == \A k \in Key : KeyPrefix(k, k)
  BY DEF KeyPrefix, Key

THEOREM KPTrans == \A k1, k2, k3 \in Key : KeyPrefix(k1, k2) /\ KeyPrefix(k2, k3) => KeyPrefix(k1, k3)
  BY DEF KeyPrefix, Key

THEOREM KPAntisym == \A k1, k2 \in Key : KeyPrefix(k1, k2) /\ KeyPrefix(k2, k1) => k1 = k2
<1> SUFFICES ASSUME NEW k1 \in Key, NEW k2 \in Key, KeyPrefix(k1, k2), KeyPrefix(k2, k1) PROVE k1 = k2
    OBVIOUS
<1>1. Len(k1) = Len(k2)
    BY DEF KeyPrefix, Key
<1>2. \A i \in 1..Len(k1) : k1[i] = k2[i]
    BY DEF KeyPrefix
<1> QED BY <1>1, <1>2, SeqEqual DEF Key
=============================================================================
