---------------------------- MODULE EntriesProof ----------------------------
(* Unbounded (TLAPS) proof of the algebraic core of C02 at the level of the
   specification: for ANY normalized store S (finite or not), ANY entry e and
   ANY prefix relation that is a partial order, one insertion as the property
   states it (`SpecPutOk` / `SpecPruned` of Entries.tla) yields exactly
   Kept(S \cup {e}); and domination is a strict partial order.  TLC checks the
   same statements - and the code's mechanism against them - over bounded
   universes of real byte strings (MCReplica, MCBytes); this module removes
   the bound on keys, timestamps, hashes and set sizes for the statement itself.

   Keys are abstract here: KP is any reflexive, transitive, antisymmetric relation
   (Bytes!KeyPrefix is one: checked by TLC in MCBytes).                          *)
EXTENDS Integers, FiniteSets, FiniteSetTheorems, TLAPS

CONSTANT Key, KP(_, _)
ASSUME KPRefl == \A k \in Key : KP(k, k)
ASSUME KPTrans == \A k1, k2, k3 \in Key : KP(k1, k2) /\ KP(k2, k3) => KP(k1, k3)
ASSUME KPAntisym == \A k1, k2 \in Key : KP(k1, k2) /\ KP(k2, k1) => k1 = k2

Entry == [a : Int, k : Key, ts : Int, h : Int]

ValLess(e, f) == e.ts < f.ts \/ (e.ts = f.ts /\ e.h < f.h)
ValLeq(e, f) == ~ValLess(f, e)
Dom(f, e) == f # e /\ f.a = e.a /\ KP(f.k, e.k) /\ ValLeq(e, f)
Dominated(e, S) == \E f \in S : Dom(f, e)
Kept(S) == {e \in S : ~Dominated(e, S)}

SpecPutOk(S, e) == ~\E f \in S : f.a = e.a /\ KP(f.k, e.k) /\ ValLeq(e, f)
SpecPruned(S, e) == {f \in S : f.a = e.a /\ KP(e.k, f.k) /\ ValLeq(f, e)}
PutS(S, e) == IF SpecPutOk(S, e) THEN (S \ SpecPruned(S, e)) \cup {e} ELSE S

\* records with these four fields are equal when the fields are
LEMMA EntryExt == \A e, f \in Entry : (e.a = f.a /\ e.k = f.k /\ e.ts = f.ts /\ e.h = f.h) => e = f
  BY DEF Entry

LEMMA ValAntisym == \A e, f \in Entry : ValLeq(e, f) /\ ValLeq(f, e) => (e.ts = f.ts /\ e.h = f.h)
  BY DEF Entry, ValLeq, ValLess

LEMMA ValTrans == \A e, f, g \in Entry : ValLeq(e, f) /\ ValLeq(f, g) => ValLeq(e, g)
  BY DEF Entry, ValLeq, ValLess

\* domination is a strict partial order on entries
THEOREM DomIrreflexive == \A e \in Entry : ~Dom(e, e)
  BY DEF Dom

THEOREM DomTransitive == \A e, f, g \in Entry : Dom(g, f) /\ Dom(f, e) => Dom(g, e)
<1> SUFFICES ASSUME NEW e \in Entry, NEW f \in Entry, NEW g \in Entry, Dom(g, f), Dom(f, e)
             PROVE Dom(g, e)
    OBVIOUS
<1>1. g.a = e.a /\ KP(g.k, e.k)
    BY KPTrans DEF Dom, Entry
<1>2. ValLeq(e, g)
    BY ValTrans DEF Dom
<1>3. g # e
    <2> SUFFICES ASSUME g = e PROVE FALSE
        OBVIOUS
    <2>1. KP(e.k, f.k) /\ KP(f.k, e.k)
        BY DEF Dom
    <2>2. e.k = f.k
        BY <2>1, KPAntisym DEF Entry
    <2>3. ValLeq(e, f) /\ ValLeq(f, e)
        BY DEF Dom
    <2>4. e.ts = f.ts /\ e.h = f.h
        BY <2>3, ValAntisym
    <2>5. e = f
        BY <2>2, <2>4, EntryExt DEF Dom
    <2> QED BY <2>5 DEF Dom
<1> QED BY <1>1, <1>2, <1>3 DEF Dom

\* one insertion into a normalized store is the join with that entry
THEOREM PutIsKept ==
  ASSUME NEW S \in SUBSET Entry, NEW e \in Entry, S = Kept(S)
  PROVE  PutS(S, e) = Kept(S \cup {e})
<1>n. \A x \in S : ~Dominated(x, S)
    BY DEF Kept
<1>1. CASE ~SpecPutOk(S, e)
    <2>1. PICK f \in S : f.a = e.a /\ KP(f.k, e.k) /\ ValLeq(e, f)
        BY <1>1 DEF SpecPutOk
    <2>2. CASE e \in S
        <3>1. S \cup {e} = S
            BY <2>2
        <3> QED BY <3>1, <1>1 DEF PutS
    <2>3. CASE e \notin S
        <3>1. Dom(f, e)
            BY <2>1, <2>3 DEF Dom
        <3>2. e \notin Kept(S \cup {e})
            BY <3>1 DEF Kept, Dominated
        <3>3. \A g \in S : ~Dom(e, g)
            <4> SUFFICES ASSUME NEW g \in S, Dom(e, g) PROVE FALSE
                OBVIOUS
            <4>1. Dom(f, g)
                BY <3>1, DomTransitive
            <4> QED BY <4>1, <1>n DEF Dominated
        <3>4. \A g \in S : ~Dominated(g, S \cup {e})
            BY <3>3, <1>n DEF Dominated
        <3>5. Kept(S \cup {e}) = S
            BY <3>2, <3>4 DEF Kept
        <3> QED BY <3>5, <1>1 DEF PutS
    <2> QED BY <2>2, <2>3
<1>2. CASE SpecPutOk(S, e)
    <2>1. \A f \in S : ~(f.a = e.a /\ KP(f.k, e.k) /\ ValLeq(e, f))
        BY <1>2 DEF SpecPutOk
    <2>2. e \notin S
        BY <2>1, KPRefl DEF ValLeq, ValLess, Entry
    <2>3. ~Dominated(e, S \cup {e})
        BY <2>1 DEF Dominated, Dom
    <2>4. \A g \in S : Dominated(g, S \cup {e}) <=> g \in SpecPruned(S, e)
        <3> TAKE g \in S
        <3>1. Dominated(g, S \cup {e}) <=> Dom(e, g)
            BY <1>n DEF Dominated
        <3>2. Dom(e, g) <=> (e.a = g.a /\ KP(e.k, g.k) /\ ValLeq(g, e))
            BY <2>2 DEF Dom
        <3> QED BY <3>1, <3>2 DEF SpecPruned
    <2>5. Kept(S \cup {e}) = (S \ SpecPruned(S, e)) \cup {e}
        BY <2>3, <2>4 DEF Kept, SpecPruned
    <2> QED BY <2>5, <1>2 DEF PutS
<1> QED BY <1>1, <1>2

\* ---------------------------------------------------------------------------------------------------------------
\* In a FINITE set every entry is kept or lies below a kept one (domination is a strict partial order, so a
\* finite set has maximal elements above everything).
Covered(T) == \A x \in T : \E y \in T : ~Dominated(y, T) /\ (y = x \/ Dom(y, x))

LEMMA CoveredStep ==
  ASSUME NEW T \in SUBSET Entry, NEW z \in Entry, z \notin T, Covered(T)
  PROVE  Covered(T \cup {z})
<1> DEFINE T2 == T \cup {z}
<1>a. \A v \in T : ~Dominated(v, T) /\ ~Dom(z, v) => ~Dominated(v, T2)
    BY DEF Dominated
<1>b. (\A u \in T : ~Dom(u, z)) => ~Dominated(z, T2)
    BY DomIrreflexive DEF Dominated
<1>1. ASSUME NEW x \in T PROVE \E y \in T2 : ~Dominated(y, T2) /\ (y = x \/ Dom(y, x))
    <2>1. PICK y \in T : ~Dominated(y, T) /\ (y = x \/ Dom(y, x))
        BY DEF Covered
    <2>2. CASE ~Dom(z, y)
        BY <2>1, <2>2, <1>a
    <2>3. CASE Dom(z, y)
        <3>1. Dom(z, x)
            BY <2>1, <2>3, DomTransitive
        <3>2. \A u \in T : ~Dom(u, z)
            <4> SUFFICES ASSUME NEW u \in T, Dom(u, z) PROVE FALSE
                OBVIOUS
            <4>1. PICK v \in T : ~Dominated(v, T) /\ (v = u \/ Dom(v, u))
                BY DEF Covered
            <4>2. Dom(v, z)
                BY <4>1, DomTransitive
            <4>3. Dom(v, y)
                BY <4>2, <2>3, DomTransitive
            <4> QED BY <4>3, <2>1 DEF Dominated
        <3>3. ~Dominated(z, T2)
            BY <3>2, <1>b
        <3> QED BY <3>1, <3>3
    <2> QED BY <2>2, <2>3
<1>2. \E y \in T2 : ~Dominated(y, T2) /\ (y = z \/ Dom(y, z))
    <2>1. CASE \A u \in T : ~Dom(u, z)
        BY <2>1, <1>b
    <2>2. CASE \E u \in T : Dom(u, z)
        <3>1. PICK u \in T : Dom(u, z)
            BY <2>2
        <3>2. PICK v \in T : ~Dominated(v, T) /\ (v = u \/ Dom(v, u))
            BY DEF Covered
        <3>3. Dom(v, z)
            BY <3>1, <3>2, DomTransitive
        <3>4. ~Dom(z, v)
            BY <3>3, DomTransitive, DomIrreflexive
        <3>5. ~Dominated(v, T2)
            BY <3>2, <3>4, <1>a
        <3> QED BY <3>3, <3>5
    <2> QED BY <2>1, <2>2
<1> QED BY <1>1, <1>2 DEF Covered

THEOREM FiniteCovered ==
  ASSUME NEW A \in SUBSET Entry, IsFiniteSet(A)
  PROVE  Covered(A)
<1> DEFINE P(T) == T \in SUBSET Entry => Covered(T)
<1>1. P({})
    BY DEF Covered
<1>2. ASSUME NEW T \in SUBSET A, IsFiniteSet(T), P(T), NEW x \in A \ T
      PROVE  P(T \cup {x})
    BY <1>2, CoveredStep
<1>3. P(A)
    <2> HIDE DEF P
    <2> QED BY <1>1, <1>2, FS_Induction, IsaM("blast")
<1> QED BY <1>3

\* absorption: superseded entries can be forgotten - what a replica keeps of a history is determined by what it
\* kept so far and the next entry
THEOREM Absorb ==
  ASSUME NEW A \in SUBSET Entry, IsFiniteSet(A), NEW e \in Entry
  PROVE  Kept(Kept(A) \cup {e}) = Kept(A \cup {e})
<1> DEFINE K == Kept(A) \cup {e}
<1> DEFINE B == A \cup {e}
<1>0. K \subseteq B /\ Kept(A) \subseteq A
    BY DEF Kept
<1>c. Covered(A)
    BY FiniteCovered
<1>1. \A x \in B : Dominated(x, B) => Dominated(x, K)
    <2> SUFFICES ASSUME NEW x \in B, NEW w \in B, Dom(w, x) PROVE Dominated(x, K)
        BY DEF Dominated
    <2>1. CASE w = e
        BY <2>1 DEF Dominated
    <2>2. CASE w \in A
        <3>1. PICK y \in A : ~Dominated(y, A) /\ (y = w \/ Dom(y, w))
            BY <2>2, <1>c DEF Covered
        <3>2. y \in Kept(A)
            BY <3>1 DEF Kept
        <3>3. Dom(y, x)
            BY <3>1, DomTransitive
        <3> QED BY <3>2, <3>3 DEF Dominated
    <2> QED BY <2>1, <2>2
<1>2. \A x \in K : Dominated(x, K) => Dominated(x, B)
    BY <1>0 DEF Dominated
<1>3. \A x \in B : ~Dominated(x, B) => x \in K
    BY DEF Kept, Dominated
<1> QED BY <1>0, <1>1, <1>2, <1>3 DEF Kept

\* hence by PutIsKept: for a replica that holds Kept(offered), inserting e leaves it holding Kept(offered \cup {e}) -
\* the inductive step of "the state is an order-independent function of the set of entries offered" (C02)
THEOREM StepKeepsInvariant ==
  ASSUME NEW A \in SUBSET Entry, IsFiniteSet(A), NEW e \in Entry
  PROVE  PutS(Kept(A), e) = Kept(A \cup {e})
<1>1. Kept(A) \in SUBSET Entry
    BY DEF Kept
<1>2. Kept(Kept(A)) = Kept(A)
    BY DEF Kept, Dominated
<1>3. PutS(Kept(A), e) = Kept(Kept(A) \cup {e})
    BY <1>1, <1>2, PutIsKept
<1> QED BY <1>3, Absorb
=============================================================================
