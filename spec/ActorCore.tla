------------------------------- MODULE ActorCore -------------------------------
(* The store actor (src/actor.rs): one thread owns the store and serves requests
   from a FIFO channel.  Per document it keeps {handles, sync, subscribers} while
   the document is open.  ActorStep is the sequential meaning of one request; it is
   shared by the model (Actor.tla) and the trace specification (ActorTrace.tla).                                                             *)
EXTENDS Entries, Policy, SequencesExt, TLC

CONSTANTS OpenCounts,      \* close releases exactly one handle and the document stays usable until the last one
          SyncSticky,      \* re-opening never clears the sync flag
          GateSync,        \* remote-insert / reconciliation requests require the sync flag
          GateOpen,        \* reads, writes and subscriptions require an open document
          DropClearsSettings   \* dropping a document also drops its download policy and useful peers (FALSE: they outlive it)

NoDoc == [cap |-> "none", recs |-> {}, peers |-> <<>>, pol |-> DefaultPolicy]
\* a head report as sent by a peer: a sequence of <<author, timestamp>> pairs with distinct authors
ReportFn(rep) == [a \in {rep[i][1] : i \in 1..Len(rep)} |-> rep[CHOOSE i \in 1..Len(rep) : rep[i][1] = a][2]]
\* the useful-peer list of a document: most recently registered first, no duplicates, at most five (C17)
MRU5(ps, p) == LET all == <<p>> \o SelectSeq(ps, LAMBDA x : x # p)
               IN IF Len(all) > 5 THEN SubSeq(all, 1, 5) ELSE all
IsOpen(st, d) == d \in DOMAIN st.open
Ok(st, val) == [st |-> st, res |-> "ok", val |-> val]
Fail(st, why) == [st |-> st, res |-> why, val |-> <<>>]
SetDoc(st, d, doc) == [st EXCEPT !.docs = [x \in DOMAIN st.docs |-> IF x = d THEN doc ELSE st.docs[x]]]
SetOpen(st, d, o) == [st EXCEPT !.open = [x \in (DOMAIN st.open) \cup {d} |-> IF x = d THEN o ELSE st.open[x]]]
DelOpen(st, d) == [st EXCEPT !.open = [x \in (DOMAIN st.open) \ {d} |-> st.open[x]]]

Sorted(S) == SetToSortSeq(S, LAMBDA u, v : u.a < v.a \/ (u.a = v.a /\ LexLess(u.k, v.k)))

\* the sequential meaning of one request q = [op, d, ...]
ActorStep(st, q) ==
  LET d == q.d
      doc == st.docs[d]
      open == IsOpen(st, d)
      o == IF open THEN st.open[d] ELSE [handles |-> 0, sync |-> FALSE, subs |-> {}]
      gatedOpen == GateOpen /\ ~open
      gatedSync == gatedOpen \/ (GateSync /\ ~o.sync)
  IN
  CASE q.op = "Open" ->
         IF open
         THEN Ok(SetOpen(st, d, [handles |-> o.handles + 1,
                                 sync |-> IF SyncSticky THEN o.sync \/ q.sync ELSE q.sync,
                                 subs |-> o.subs \cup (IF q.sub THEN {q.sid} ELSE {})]), <<>>)
         ELSE IF doc.cap = "none" THEN Fail(st, "NotFound")
         ELSE Ok(SetOpen(st, d, [handles |-> 1, sync |-> q.sync, subs |-> IF q.sub THEN {q.sid} ELSE {}]), <<>>)
    [] q.op = "Close" ->
         IF ~open THEN Ok(st, <<TRUE>>)
         ELSE IF o.handles = 1 \/ ~OpenCounts THEN Ok(DelOpen(st, d), <<TRUE>>)
         ELSE Ok(SetOpen(st, d, [o EXCEPT !.handles = @ - 1]), <<FALSE>>)
    [] q.op = "GetState" ->
         IF ~open THEN Fail(st, "NotOpen") ELSE Ok(st, <<o.handles, o.sync, Cardinality(o.subs)>>)
    [] q.op = "SetSync" ->
         IF ~open THEN Fail(st, "NotOpen") ELSE Ok(SetOpen(st, d, [o EXCEPT !.sync = q.sync]), <<>>)
    [] q.op = "Subscribe" ->
         IF gatedOpen THEN Fail(st, "NotOpen") ELSE Ok(SetOpen(st, d, [o EXCEPT !.subs = @ \cup {q.sid}]), <<>>)
    [] q.op = "Unsubscribe" ->   \* removes exactly the given sender, if it is subscribed on this document
         IF gatedOpen THEN Fail(st, "NotOpen")
         ELSE Ok(SetOpen(st, d, [o EXCEPT !.subs = @ \ {q.sid}]), <<>>)
    [] q.op \in {"InsertLocal", "DeletePrefix"} ->
         IF q.e.a \notin st.authors THEN Fail(st, "AuthorNotFound")
         ELSE IF gatedOpen THEN Fail(st, "NotOpen")
         ELSE IF doc.cap # "write" THEN Fail(st, "ReadOnly")
         ELSE IF ~PutOk(doc.recs, q.e) THEN Fail(st, "NewerEntryExists")
         ELSE Ok(SetDoc(st, d, [doc EXCEPT !.recs = PutStore(doc.recs, q.e)]),
                 IF q.op = "DeletePrefix" THEN <<RemovedCount(doc.recs, q.e)>> ELSE <<>>)
    [] q.op = "InsertRemote" ->
         IF gatedOpen THEN Fail(st, "NotOpen")
         ELSE IF gatedSync THEN Fail(st, "SyncDisabled")
         ELSE IF ~PutOk(doc.recs, q.e) THEN Fail(st, "NewerEntryExists")
         ELSE Ok(SetDoc(st, d, [doc EXCEPT !.recs = PutStore(doc.recs, q.e)]), <<>>)
    [] q.op \in {"SyncInit", "SyncProcess"} ->     \* both ends of a reconciliation pass the same gates
         IF gatedOpen THEN Fail(st, "NotOpen")
         ELSE IF gatedSync THEN Fail(st, "SyncDisabled") ELSE Ok(st, <<>>)
    [] q.op = "GetMany" ->
         IF gatedOpen THEN Fail(st, "NotOpen") ELSE Ok(st, Sorted(doc.recs))
    [] q.op = "GetExact" ->
         IF gatedOpen THEN Fail(st, "NotOpen")
         ELSE Ok(st, Sorted({e \in doc.recs : e.a = q.a /\ e.k = q.k}))
    [] q.op = "Import" ->
         Ok(SetDoc(st, d, [doc EXCEPT !.cap = IF doc.cap = "none" THEN q.kind
                                               ELSE IF q.kind = "write" THEN "write" ELSE doc.cap]), <<>>)
    [] q.op = "ImportAuthor" -> Ok([st EXCEPT !.authors = @ \cup {q.a}], <<>>)
    [] q.op = "Drop" ->
         \* close one handle, then remove; removal is refused while handles remain
         LET st1 == IF ~open THEN st ELSE IF o.handles = 1 THEN DelOpen(st, d)
                                           ELSE SetOpen(st, d, [o EXCEPT !.handles = @ - 1])
         IN IF IsOpen(st1, d) THEN Fail(st1, "StillOpen")
            ELSE Ok(SetDoc(st1, d, IF DropClearsSettings THEN NoDoc ELSE [NoDoc EXCEPT !.pol = doc.pol, !.peers = doc.peers]), <<>>)
    [] q.op = "ExportSecret" ->
         IF ~open THEN Fail(st, "NotOpen")
         ELSE IF doc.cap # "write" THEN Fail(st, "ReadOnly") ELSE Ok(st, <<>>)
    [] q.op = "RegisterPeer" ->      \* (no open gate: the live engine registers peers of documents it merely syncs)
         IF doc.cap = "none" THEN Fail(st, "NotFound")
         ELSE Ok(SetDoc(st, d, [doc EXCEPT !.peers = MRU5(@, q.p)]), <<>>)
    [] q.op = "GetPeers" -> IF gatedOpen THEN Fail(st, "NotOpen") ELSE Ok(st, doc.peers)    \* (reading asks for an open document)
    \* requests the actor hands to the store without asking for an open document (the live engine uses them on documents it
    \* merely syncs): the download policy of a document that exists (C15), news detection against the records held (C13),
    \* the store-wide list of content hashes that garbage collection must keep (C16)
    [] q.op = "SetPolicy" ->
         IF doc.cap = "none" THEN Fail(st, "NotFound") ELSE Ok(SetDoc(st, d, [doc EXCEPT !.pol = q.pol]), <<>>)
    [] q.op = "GetPolicy" -> Ok(st, <<doc.pol>>)
    [] q.op = "HasNews" -> Ok(st, <<NewsCount(ReportFn(q.report), HeadsOf(doc.recs))>>)
    [] q.op = "Hashes" -> Ok(st, <<UNION {{e.h : e \in st.docs[x].recs} : x \in DOMAIN st.docs}>>)
    [] q.op \in {"Flush", "List"} -> Ok(st, <<>>)
    [] OTHER -> Fail(st, "BadRequest")
=============================================================================
